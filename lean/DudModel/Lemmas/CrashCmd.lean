import DudModel.Lemmas.CrashPost
import DudModel.Lemmas.SysCmdRefine
import DudModel.Lemmas.WorldTrip
import DudModel.Props.C03
/-!
# Crash safety of the whole `dud commit`: the world-level argument (C03, command level)

* paths of a workspace tree: `getPath` versus `trackedOf`, `getPath` after `setPath`, `uniqNode` after
  `setPath`
* `fsOfWorld`: a world as a file system (workspace tree, cache objects, stage files; no lock, no temp
  files), safe when names are duplicate-free and the cache is consistent
* `Rel ws fs`: the relation between the logical workspace and the file system that every artifact commit
  re-establishes (regular files in place, temp names free, names duplicate-free)
* one artifact (`commitArtWT_step`), the artifacts of a stage (`commitArtsT_step`, `commitActT_step`), the
  traversal (`TInv`, `commitTravT_inv`, `cmd_traversal_inv`)
* stage-file writes: harmless for the cache discipline, atomic one by one (`metaPhase_atomic`)
-/
namespace Dud.Sys
open Dud
variable {κ : Type}

/-! ## paths of a tree -/

theorem getPath_append : ∀ (p r : List Name) (n : Node κ),
    getPath n (p ++ r) = (getPath n p).bind (fun m => getPath m r)
  | [], r, n => by simp [getPath]
  | c :: p, r, .dir es => by
    simp only [List.cons_append, getPath]
    cases alookup es c with
    | none => rfl
    | some m => exact getPath_append p r m
  | _ :: _, _, .file _ => by simp [getPath]
  | _ :: _, _, .link _ => by simp [getPath]
  | _ :: _, _, .other => by simp [getPath]

theorem trackedList_of_mem {pre : List Name} : ∀ {es : List (Name × Node κ)} {nm : Name} {m : Node κ}
    {p : P × κ}, (nm, m) ∈ es → p ∈ trackedOf (pre ++ [nm]) m → p ∈ trackedList pre es
  | (k, v) :: r, nm, m, p, he, hp => by
    simp only [trackedList, List.mem_append]
    rcases List.mem_cons.1 he with heq | he'
    · cases heq; exact .inl hp
    · exact .inr (trackedList_of_mem he' hp)

/-- a regular file found at a path is one of the tracked files -/
theorem tracked_of_getPath : ∀ (r : List Name) (n : Node κ) (pre : List Name) (x : κ),
    getPath n r = some (.file x) → (P.ws (pre ++ r), x) ∈ trackedOf pre n
  | [], n, pre, x, h => by
    simp only [getPath, Option.some.injEq] at h
    subst h
    simp [trackedOf]
  | c :: r, .dir es, pre, x, h => by
    simp only [getPath] at h
    cases hm : alookup es c with
    | none => simp [hm] at h
    | some m =>
      simp only [hm] at h
      have ih := tracked_of_getPath r m (pre ++ [c]) x h
      simp only [trackedOf]
      have : pre ++ c :: r = pre ++ [c] ++ r := by simp
      rw [this]
      exact trackedList_of_mem (alookup_mem hm) ih
  | _ :: _, .file _, _, _, h => by simp [getPath] at h
  | _ :: _, .link _, _, _, h => by simp [getPath] at h
  | _ :: _, .other, _, _, h => by simp [getPath] at h

mutual
/-- with duplicate-free names a tracked file is found at its path -/
theorem getPath_of_tracked : ∀ (nd : Node κ) (pre : List Name) (p : P × κ), uniqNode nd →
    p ∈ trackedOf pre nd → ∃ r, p.1 = .ws (pre ++ r) ∧ getPath nd r = some (.file p.2)
  | .file c, pre, p, _, h => by
    simp only [trackedOf, List.mem_singleton] at h
    subst h
    exact ⟨[], by simp, rfl⟩
  | .link _, _, _, _, h => by simp [trackedOf] at h
  | .other, _, _, _, h => by simp [trackedOf] at h
  | .dir es, pre, p, hu, h => by
    simp only [trackedOf] at h
    simp only [uniqNode] at hu
    obtain ⟨nm, r, m, hp, hm, hg⟩ := getPath_of_trackedList es pre p hu h
    exact ⟨nm :: r, hp, by simp [getPath, hm, hg]⟩
theorem getPath_of_trackedList : ∀ (es : List (Name × Node κ)) (pre : List Name) (p : P × κ),
    uniqList es → p ∈ trackedList pre es →
    ∃ nm r m, p.1 = .ws (pre ++ nm :: r) ∧ alookup es nm = some m ∧ getPath m r = some (.file p.2)
  | [], _, _, _, h => by simp [trackedList] at h
  | (k, v) :: rest, pre, p, hu, h => by
    simp only [uniqList] at hu
    obtain ⟨huv, hne, hur⟩ := hu
    simp only [trackedList, List.mem_append] at h
    rcases h with h | h
    · obtain ⟨r, hp, hg⟩ := getPath_of_tracked v (pre ++ [k]) p huv h
      exact ⟨k, r, v, by simp [hp], by simp [alookup], hg⟩
    · obtain ⟨nm, r, m, hp, hm, hg⟩ := getPath_of_trackedList rest pre p hur h
      have hne' : k ≠ nm := fun e => hne (nm, m) (alookup_mem hm) e.symm
      exact ⟨nm, r, m, hp, by simp [alookup, hne', hm], hg⟩
end

/-- below a path that was written there are directories -/
theorem getPath_setPath_above : ∀ (q : List Name) (y : Name) (r : List Name) (ws ws' v : Node κ),
    setPath ws (q ++ y :: r) v = some ws' → ∃ es, getPath ws' q = some (.dir es)
  | [], y, r, .dir es, ws', v, h => by
    simp only [List.nil_append, setPath] at h
    split at h
    · injection h with h; subst h; exact ⟨_, rfl⟩
    · cases h
  | [], _, _, .file _, _, _, h => by simp [setPath] at h
  | [], _, _, .link _, _, _, h => by simp [setPath] at h
  | [], _, _, .other, _, _, h => by simp [setPath] at h
  | c :: q, y, r, .dir es, ws', v, h => by
    simp only [List.cons_append, setPath] at h
    split at h
    · rename_i n hn
      injection h with h
      subst h
      simp only [getPath, WT.alookup_setEntry_self]
      exact getPath_setPath_above q y r _ n v hn
    · cases h
  | _ :: _, _, _, .file _, _, _, h => by simp [setPath] at h
  | _ :: _, _, _, .link _, _, _, h => by simp [setPath] at h
  | _ :: _, _, _, .other, _, _, h => by simp [setPath] at h

/-- a regular file found after writing `v` at `p` is a file of `v`, or was there before at a path that
does not pass through `p` -/
theorem getPath_setPath_file {p q : List Name} {ws ws' v : Node κ} {x : κ}
    (hs : setPath ws p v = some ws') (hg : getPath ws' q = some (.file x)) :
    (∃ r, q = p ++ r ∧ getPath v r = some (.file x)) ∨
    (¬ p <+: q ∧ getPath ws q = some (.file x)) := by
  by_cases hpq : p <+: q
  · left
    obtain ⟨r, rfl⟩ := hpq
    refine ⟨r, rfl, ?_⟩
    rw [getPath_append, WT.getPath_setPath_self p ws ws' v hs] at hg
    exact hg
  · right
    refine ⟨hpq, ?_⟩
    by_cases hqp : q <+: p
    · exfalso
      obtain ⟨r, rfl⟩ := hqp
      cases r with
      | nil => exact hpq (by simp)
      | cons y r =>
        obtain ⟨es, hes⟩ := getPath_setPath_above q y r ws ws' v hs
        rw [hes] at hg; cases hg
    · rw [WT.getPath_setPath_apart ⟨hpq, hqp⟩ hs] at hg
      exact hg

/-! ## duplicate-free names along `getPath` / `setPath` -/

theorem uniqNode_of_alookup : ∀ {es : List (Name × Node κ)} {c : Name} {m : Node κ},
    uniqList es → alookup es c = some m → uniqNode m
  | (k, v) :: r, c, m, hu, h => by
    simp only [uniqList] at hu
    simp only [alookup] at h
    split at h
    · cases h; exact hu.1
    · exact uniqNode_of_alookup hu.2.2 h

theorem uniqNode_getPath : ∀ (p : List Name) (ws n : Node κ), uniqNode ws → getPath ws p = some n →
    uniqNode n
  | [], ws, n, hu, h => by
    simp only [getPath, Option.some.injEq] at h; subst h; exact hu
  | c :: p, .dir es, n, hu, h => by
    simp only [getPath] at h
    simp only [uniqNode] at hu
    cases hm : alookup es c with
    | none => simp [hm] at h
    | some m =>
      simp only [hm] at h
      exact uniqNode_getPath p m n (uniqNode_of_alookup hu hm) h
  | _ :: _, .file _, _, _, h => by simp [getPath] at h
  | _ :: _, .link _, _, _, h => by simp [getPath] at h
  | _ :: _, .other, _, _, h => by simp [getPath] at h

theorem uniqOpt_getPath (p : List Name) (ws : Node κ) (hu : uniqNode ws) : uniqOpt (getPath ws p) := by
  cases h : getPath ws p with
  | none => trivial
  | some n => exact uniqNode_getPath p ws n hu h

theorem mem_setEntry : ∀ {es : List (Name × Node κ)} {c : Name} {n : Node κ} {e : Name × Node κ},
    e ∈ setEntry es c n → e ∈ es ∨ e = (c, n)
  | [], c, n, e, h => by simp [setEntry] at h; exact .inr h
  | (k, v) :: r, c, n, e, h => by
    simp only [setEntry] at h
    split at h
    · rename_i hk
      have hk : k = c := by simpa using hk
      rcases List.mem_cons.1 h with h | h
      · exact .inr (by rw [h, hk])
      · exact .inl (List.mem_cons_of_mem _ h)
    · rcases List.mem_cons.1 h with h | h
      · exact .inl (by rw [h]; simp)
      · rcases mem_setEntry h with h | h
        · exact .inl (List.mem_cons_of_mem _ h)
        · exact .inr h

theorem uniqList_setEntry : ∀ {es : List (Name × Node κ)} {c : Name} {n : Node κ},
    uniqList es → uniqNode n → uniqList (setEntry es c n)
  | [], c, n, _, hn => by simp [setEntry, uniqList, hn]
  | (k, v) :: r, c, n, hu, hn => by
    simp only [uniqList] at hu
    obtain ⟨huv, hne, hur⟩ := hu
    simp only [setEntry]
    split
    · simp only [uniqList]; exact ⟨hn, hne, hur⟩
    · rename_i hk
      have hk : k ≠ c := by simpa using hk
      simp only [uniqList]
      refine ⟨huv, fun e he => ?_, uniqList_setEntry hur hn⟩
      rcases mem_setEntry he with he | he
      · exact hne e he
      · rw [he]; exact fun h => hk h.symm

theorem uniqNode_setPath : ∀ (p : List Name) (ws ws' v : Node κ), uniqNode ws → uniqNode v →
    setPath ws p v = some ws' → uniqNode ws'
  | [], ws, ws', v, _, hv, h => by
    simp only [setPath, Option.some.injEq] at h; subst h; exact hv
  | c :: p, .dir es, ws', v, hu, hv, h => by
    simp only [setPath] at h
    simp only [uniqNode] at hu
    split at h
    · rename_i n hn
      injection h with h
      subst h
      simp only [uniqNode]
      refine uniqList_setEntry hu (uniqNode_setPath p _ n v ?_ hv hn)
      cases hm : alookup es c with
      | none => simp [uniqNode, uniqList]
      | some m => simpa using uniqNode_of_alookup hu hm
    · cases h
  | _ :: _, .file _, _, _, _, _, h => by simp [setPath] at h
  | _ :: _, .link _, _, _, _, _, h => by simp [setPath] at h
  | _ :: _, .other, _, _, _, _, h => by simp [setPath] at h

/-! ## a world as a file system -/

/-- the stage files of the index -/
def fsOfIdx (enc : Stage → κ) (idx : Index) : FS κ :=
  idx.map (fun e => (P.stageFile e.1, Entry.file (enc e.2) 0o644))

/-- workspace tree, cache objects with their shard directories, cache root, stage files; neither a lock
nor temp files -/
def fsOfWorld (c : CmdCfg κ) (w : World κ) : FS κ :=
  fsOf c.cfg.ctx [] w.ws w.store ++ fsOfIdx c.encStage w.idx

theorem fsOfIdx_keys (enc : Stage → κ) (idx : Index) :
    ∀ e ∈ fsOfIdx enc idx, ∃ sp, e.1 = .stageFile sp := by
  intro e he
  simp only [fsOfIdx, List.mem_map] at he
  obtain ⟨x, -, rfl⟩ := he
  exact ⟨_, rfl⟩

theorem fsOf_keys (ctx : Ctx κ) (pre : List Name) (nd : Node κ) (s : Store κ) :
    ∀ e ∈ fsOf ctx pre nd s, (∃ q, e.1 = .ws q) ∨ (∃ d, e.1 = .obj d) ∨ (∃ h, e.1 = .shard h) ∨
      e.1 = .cacheRoot := by
  intro e he
  simp only [fsOf, fsOfStore, List.mem_append, List.mem_map, List.mem_singleton] at he
  rcases he with (he | ⟨x, -, rfl⟩ | ⟨x, -, rfl⟩) | rfl
  · obtain ⟨names, hn⟩ := fsOfNode_keys nd pre e he
    exact .inl ⟨_, hn⟩
  · exact .inr (.inl ⟨_, rfl⟩)
  · exact .inr (.inr (.inl ⟨_, rfl⟩))
  · exact .inr (.inr (.inr rfl))

/-- outside the stage files a world's file system is the tree-and-cache abstraction `fsOf` -/
theorem fsOfWorld_get (c : CmdCfg κ) (w : World κ) {p : P} (hp : ∀ sp, p ≠ .stageFile sp) :
    (fsOfWorld c w).get p = (fsOf c.cfg.ctx [] w.ws w.store).get p := by
  simp only [fsOfWorld, FS.get, alookup_append]
  have : alookup (fsOfIdx c.encStage w.idx) p = none := by
    apply alookup_none_of_keys
    intro e he heq
    obtain ⟨sp, hsp⟩ := fsOfIdx_keys _ _ e he
    exact hp sp (heq ▸ hsp)
  rw [this]
  cases alookup (fsOf c.cfg.ctx [] w.ws w.store) p <;> rfl

theorem fsOf_get_none (ctx : Ctx κ) (pre : List Name) (nd : Node κ) (s : Store κ) {p : P}
    (h1 : ∀ q, p ≠ .ws q) (h2 : ∀ d, p ≠ .obj d) (h3 : ∀ h, p ≠ .shard h) (h4 : p ≠ .cacheRoot) :
    (fsOf ctx pre nd s).get p = none := by
  apply alookup_none_of_keys
  intro e he heq
  rcases fsOf_keys ctx pre nd s e he with ⟨q, hq⟩ | ⟨d, hd⟩ | ⟨h, hh⟩ | hc
  · exact h1 q (heq ▸ hq)
  · exact h2 d (heq ▸ hd)
  · exact h3 h (heq ▸ hh)
  · exact h4 (heq ▸ hc)

theorem fsOfWorld_get_lock (c : CmdCfg κ) (w : World κ) : (fsOfWorld c w).get .lock = none := by
  rw [fsOfWorld_get c w (by simp)]
  exact fsOf_get_none _ _ _ _ (by simp) (by simp) (by simp) (by simp)

theorem fsOfWorld_get_stageTmp (c : CmdCfg κ) (w : World κ) (sp : Bytes) :
    (fsOfWorld c w).get (.stageTmp sp) = none := by
  rw [fsOfWorld_get c w (by simp)]
  exact fsOf_get_none _ _ _ _ (by simp) (by simp) (by simp) (by simp)

theorem fsOfWorld_get_ctmp (c : CmdCfg κ) (w : World κ) (k : Nat) :
    (fsOfWorld c w).get (.ctmp k) = none := by
  rw [fsOfWorld_get c w (by simp)]
  exact fsOf_get_ctmp _ _ _ _ k

theorem alookup_fsOfIdx (enc : Stage → κ) : ∀ (idx : Index) (sp : Bytes),
    alookup (fsOfIdx enc idx) (.stageFile sp) = (alookup idx sp).map (fun stg => Entry.file (enc stg) 0o644)
  | [], _ => rfl
  | (k, v) :: r, sp => by
    simp only [fsOfIdx, List.map_cons, alookup, beq_iff_eq, P.stageFile.injEq]
    split
    · rfl
    · exact alookup_fsOfIdx enc r sp

/-- the stage file of `sp` holds the encoding of the stage the index holds (the FIRST entry with that
path, as everywhere in the model), and does not exist for a path outside the index -/
theorem fsOfWorld_get_stageFile (c : CmdCfg κ) (w : World κ) (sp : Bytes) :
    (fsOfWorld c w).get (.stageFile sp) =
      (alookup w.idx sp).map (fun stg => Entry.file (c.encStage stg) 0o644) := by
  simp only [fsOfWorld, FS.get, alookup_append]
  have : alookup (fsOf c.cfg.ctx [] w.ws w.store) (.stageFile sp) = none :=
    fsOf_get_none _ _ _ _ (by simp) (by simp) (by simp) (by simp)
  rw [this]
  exact alookup_fsOfIdx c.encStage w.idx sp

/-- a world with duplicate-free entry names and a consistent cache is a safe state; every regular file
of the workspace is recorded -/
theorem fsOfWorld_safe (c : CmdCfg κ) (w : World κ) (hu : uniqNode w.ws)
    (hc : Consistent c.cfg.ctx w.store) : Safe c.cfg.ctx (trackedOf [] w.ws) (fsOfWorld c w) := by
  have hs := fsOf_safe c.cfg.ctx [] w.ws w.store hu hc
  refine ⟨fun p hp => ?_, fun d e he => ?_⟩
  · obtain ⟨q, hq⟩ := tracked_is_ws hp
    refine Or.inl ⟨0o644, ?_⟩
    rw [fsOfWorld_get c w (by rw [hq]; simp)]
    exact fsOf_get_tracked c.cfg.ctx [] w.ws w.store hu p hp
  · rw [fsOfWorld_get c w (by simp)] at he
    exact hs.2 d e he

/-! ## the relation between logical workspace and file system -/

/-- what the next `LocalCache.Commit` needs: every regular file of the logical workspace is in place,
the cache temp names are free, entry names are duplicate-free -/
structure Rel (ws : Node κ) (fs : FS κ) : Prop where
  files : ∀ q x, getPath ws q = some (.file x) → ∃ m, fs.get (.ws q) = some (.file x m)
  free : CtmpFree 1 fs
  uniq : uniqNode ws

theorem Rel.init (c : CmdCfg κ) (w : World κ) (hu : uniqNode w.ws) : Rel w.ws (fsOfWorld c w) where
  files := by
    intro q x hg
    have ht := tracked_of_getPath q w.ws [] x hg
    refine ⟨0o644, ?_⟩
    rw [fsOfWorld_get c w (by simp)]
    exact fsOf_get_tracked c.cfg.ctx [] w.ws w.store hu _ ht
  free := fun k _ => fsOfWorld_get_ctmp c w k
  uniq := hu

/-- calls that mention no workspace path and no cache temp file keep the relation -/
theorem Rel.frame {ws : Node κ} {fs : FS κ} (h : Rel ws fs) (emp : κ) (calls : List (Call κ))
    (hc : ∀ c ∈ calls, ∀ p ∈ callWrites c, (∀ q, p ≠ .ws q) ∧ ∀ k, p ≠ .ctmp k) :
    Rel ws (replay emp fs calls) where
  files := by
    intro q x hg
    obtain ⟨m, hm⟩ := h.files q x hg
    refine ⟨m, ?_⟩
    rw [replay_get_frame]
    · exact hm
    · exact fun c hcm hmem => (hc c hcm _ hmem).1 q rfl
  free := by
    intro k hk
    rw [replay_get_frame]
    · exact h.free k hk
    · exact fun c hcm hmem => (hc c hcm _ hmem).2 k rfl
  uniq := h.uniq

/-! ## one artifact -/

theorem paths_trackedOpt_prefix {pre : List Name} {nd : Option (Node κ)} {q : List Name}
    (h : P.ws q ∈ paths (trackedOpt pre nd)) : pre <+: q := by
  simp only [paths, List.mem_map] at h
  obtain ⟨p, hp, heq⟩ := h
  cases nd with
  | none => simp [trackedOpt] at hp
  | some n =>
    obtain ⟨names, hn, -⟩ := trackedOf_names n pre p hp
    rw [hn] at heq
    injection heq with heq
    exact ⟨names, heq⟩

/-- **One `LocalCache.Commit` inside the command**: from a safe state related to the logical workspace,
every call is allowed, the state after the complete trace is related to the new logical workspace, and
no metadata path is mentioned. -/
theorem commitArtWT_step {c : CmdCfg κ} {strat : Strat} (g : Good c.cfg.ctx) {tracked : List (P × κ)}
    (htw : TrackedWs tracked) {emp : κ} (hemp : ∀ x, c.isEmp x = true → x = emp)
    {a a' : Art} {w w' : World κ} {calls : List (Call κ)}
    (h : commitArtWT c strat a w = .ok ((a', w'), calls))
    {fs : FS κ} (hs : Safe c.cfg.ctx tracked fs) (hr : Rel w.ws fs) :
    AllowedTrace c.cfg.ctx emp tracked fs calls ∧ Rel w'.ws (replay emp fs calls) ∧
      ∀ x ∈ calls, CacheOnly x := by
  unfold commitArtWT at h
  simp only at h
  cases hT : commitArtT (c.tc strat) a (Path.comps a.path) (getPath w.ws (Path.comps a.path)) w.store with
  | error e => rw [hT] at h; cases h
  | ok v =>
    obtain ⟨⟨n, d, s⟩, calls1⟩ := v
    rw [hT] at h
    simp only at h
    cases hset : setPath w.ws (Path.comps a.path) n with
    | none => rw [hset] at h; cases h
    | some ws' =>
      rw [hset] at h
      simp only [Except.ok.injEq, Prod.mk.injEq] at h
      have hw' : w'.ws = ws' := by rw [← h.1.2]
      have hcalls : calls = calls1 := h.2.symm
      rw [hw', hcalls]
      clear h hw' hcalls
      have huo : uniqOpt (getPath w.ws (Path.comps a.path)) := uniqOpt_getPath _ _ hr.uniq
      -- the regular files of the artifact are in place
      have hin : ∀ p ∈ trackedOpt (Path.comps a.path) (getPath w.ws (Path.comps a.path)),
          ∃ m, fs.get p.1 = some (.file p.2 m) := by
        intro p hp
        cases hgp : getPath w.ws (Path.comps a.path) with
        | none => rw [hgp] at hp; simp [trackedOpt] at hp
        | some nd =>
          rw [hgp] at hp huo
          obtain ⟨r, hpr, hgr⟩ := getPath_of_tracked nd _ p huo hp
          have : getPath w.ws (Path.comps a.path ++ r) = some (.file p.2) := by
            rw [getPath_append, hgp]; exact hgr
          rw [hpr]
          exact hr.files _ _ this
      have hall : AllowedTrace c.cfg.ctx emp tracked fs calls1 :=
        commitArtT_allowed (t := c.tc strat) g htw hemp huo hT hs hin hr.free
      obtain ⟨hkept, hun⟩ := commitArtT_kept huo hT
      refine ⟨hall, ⟨?_, commitArtT_ctmp_free emp hT hr.free, ?_⟩, commitArtT_cacheOnly hT⟩
      · intro q x hg
        rcases getPath_setPath_file hset hg with ⟨r, rfl, hgr⟩ | ⟨hnp, hgq⟩
        · have ht := tracked_of_getPath r n (Path.comps a.path) x hgr
          obtain ⟨hold, hnw⟩ := hkept _ ht
          obtain ⟨m, hm⟩ := hin _ hold
          refine ⟨m, ?_⟩
          rw [replay_get_frame _ _ _ _ hnw]
          exact hm
        · obtain ⟨m, hm⟩ := hr.files q x hgq
          refine ⟨m, ?_⟩
          rw [replay_get_frame _ _ _ _
            (commitArtT_ws_writes hT (fun hmem => hnp (paths_trackedOpt_prefix hmem)))]
          exact hm
      · exact uniqNode_setPath _ _ _ _ hr.uniq hun hset

/-! ## the artifacts of a stage -/

theorem AllowedTrace.safe_final {ctx : Ctx κ} (g : Good ctx) {emp : κ} {tracked : List (P × κ)}
    {fs : FS κ} {calls : List (Call κ)} (hs : Safe ctx tracked fs)
    (ha : AllowedTrace ctx emp tracked fs calls) : Safe ctx tracked (replay emp fs calls) :=
  (ha.prefixSafe g hs).final

theorem commitArtsT_step {c : CmdCfg κ} {strat : Strat} (g : Good c.cfg.ctx) {tracked : List (P × κ)}
    (htw : TrackedWs tracked) {emp : κ} (hemp : ∀ x, c.isEmp x = true → x = emp) :
    ∀ (as : List Art) (w : World κ) (as' : List Art) (w' : World κ) (segs : List (List (Call κ))),
    commitArtsT c strat as w = .ok ((as', w'), segs) →
    ∀ (fs : FS κ), Safe c.cfg.ctx tracked fs → Rel w.ws fs →
      AllowedTrace c.cfg.ctx emp tracked fs segs.flatten ∧ Rel w'.ws (replay emp fs segs.flatten) ∧
        ∀ x ∈ segs.flatten, CacheOnly x
  | [], w, as', w', segs, h, fs, hs, hr => by
    simp only [commitArtsT, Except.ok.injEq, Prod.mk.injEq] at h
    obtain ⟨⟨-, rfl⟩, rfl⟩ := h
    exact ⟨trivial, hr, by simp⟩
  | a :: r, w, as', w', segs, h, fs, hs, hr => by
    simp only [commitArtsT] at h
    cases h1 : commitArtWT c strat a w with
    | error e => rw [h1] at h; cases h
    | ok v =>
      obtain ⟨⟨a1, w1⟩, calls1⟩ := v
      rw [h1] at h
      simp only at h
      cases h2 : commitArtsT c strat r w1 with
      | error e => rw [h2] at h; cases h
      | ok v =>
        obtain ⟨⟨r', w2⟩, segs2⟩ := v
        rw [h2] at h
        simp only [Except.ok.injEq, Prod.mk.injEq] at h
        obtain ⟨⟨-, rfl⟩, rfl⟩ := h
        obtain ⟨ha1, hr1, hc1⟩ := commitArtWT_step g htw hemp h1 hs hr
        obtain ⟨ha2, hr2, hc2⟩ := commitArtsT_step g htw hemp r w1 r' w2 segs2 h2 _
          (ha1.safe_final g hs) hr1
        simp only [List.flatten_cons]
        refine ⟨AllowedTrace.append ha1 ha2, by rw [replay_append]; exact hr2, fun x hx => ?_⟩
        rcases List.mem_append.1 hx with hx | hx
        · exact hc1 x hx
        · exact hc2 x hx

theorem commitActT_step {c : CmdCfg κ} {strat : Strat} (g : Good c.cfg.ctx) {tracked : List (P × κ)}
    (htw : TrackedWs tracked) {emp : κ} (hemp : ∀ x, c.isEmp x = true → x = emp)
    {sp : Bytes} {w w' : World κ} {segs : List (List (Call κ))}
    (h : commitActT c strat sp w = .ok (w', segs))
    {fs : FS κ} (hs : Safe c.cfg.ctx tracked fs) (hr : Rel w.ws fs) :
    AllowedTrace c.cfg.ctx emp tracked fs segs.flatten ∧ Rel w'.ws (replay emp fs segs.flatten) ∧
      ∀ x ∈ segs.flatten, CacheOnly x := by
  unfold commitActT at h
  cases hst : w.stage sp with
  | error e => rw [hst] at h; cases h
  | ok stg =>
    rw [hst] at h
    simp only at h
    cases h1 : commitArtsT c strat
      (sortArts ((stg.inputs.filter (fun a => (findOwner c.cfg.walkAccumulates w.idx a.path).isNone)).map
        (fun a => { a with skip := true }))) w with
    | error e => rw [h1] at h; cases h
    | ok v =>
      obtain ⟨⟨plain', w1⟩, segs1⟩ := v
      rw [h1] at h
      simp only at h
      cases h2 : commitArtsT c strat (sortArts stg.outputs) w1 with
      | error e => rw [h2] at h; cases h
      | ok v =>
        obtain ⟨⟨outs', w2⟩, segs2⟩ := v
        rw [h2] at h
        simp only [Except.ok.injEq, Prod.mk.injEq] at h
        obtain ⟨rfl, rfl⟩ := h
        obtain ⟨ha1, hr1, hc1⟩ := commitArtsT_step g htw hemp _ w _ w1 segs1 h1 fs hs hr
        obtain ⟨ha2, hr2, hc2⟩ := commitArtsT_step g htw hemp _ w1 _ w2 segs2 h2 _
          (ha1.safe_final g hs) hr1
        simp only [List.flatten_append]
        refine ⟨AllowedTrace.append ha1 ha2, by rw [replay_append]; exact hr2, fun x hx => ?_⟩
        rcases List.mem_append.1 hx with hx | hx
        · exact hc1 x hx
        · exact hc2 x hx

/-! ## the traversal -/

/-- invariant of the traced traversal, relative to the state `fsb` the artifact phase starts from -/
structure TInv (c : CmdCfg κ) (emp : κ) (tracked : List (P × κ)) (fsb : FS κ)
    (p : World κ × List (List (Call κ))) : Prop where
  allowed : AllowedTrace c.cfg.ctx emp tracked fsb p.2.flatten
  rel : Rel p.1.ws (replay emp fsb p.2.flatten)
  cacheOnly : ∀ x ∈ p.2.flatten, CacheOnly x

theorem commitTravT_inv {c : CmdCfg κ} {strat : Strat} (g : Good c.cfg.ctx) {tracked : List (P × κ)}
    (htw : TrackedWs tracked) {emp : κ} (hemp : ∀ x, c.isEmp x = true → x = emp)
    {fsb : FS κ} (hsb : Safe c.cfg.ctx tracked fsb) (sp : Bytes)
    (p p' : World κ × List (List (Call κ))) (hi : TInv c emp tracked fsb p)
    (h : (commitTravT c strat).act sp p = .ok p') : TInv c emp tracked fsb p' := by
  simp only [commitTravT] at h
  cases hT : commitActT c strat sp p.1 with
  | error e => rw [hT] at h; cases h
  | ok v =>
    obtain ⟨w', segs⟩ := v
    rw [hT] at h
    simp only [Except.ok.injEq] at h
    subst h
    obtain ⟨ha, hr, hc⟩ := commitActT_step g htw hemp hT (hi.allowed.safe_final g hsb) hi.rel
    refine ⟨?_, ?_, ?_⟩
    · simp only [List.flatten_append]; exact AllowedTrace.append hi.allowed ha
    · simp only [List.flatten_append, replay_append]; exact hr
    · simp only [List.flatten_append]
      intro x hx
      rcases List.mem_append.1 hx with hx | hx
      · exact hi.cacheOnly x hx
      · exact hc x hx

/-- the invariant holds after the artifact phase of the whole command -/
theorem cmd_traversal_inv {c : CmdCfg κ} {strat : Strat} (g : Good c.cfg.ctx) {tracked : List (P × κ)}
    (htw : TrackedWs tracked) {emp : κ} (hemp : ∀ x, c.isEmp x = true → x = emp)
    {fsb : FS κ} (hsb : Safe c.cfg.ctx tracked fsb) (ts : List Bytes)
    (p p' : World κ × List (List (Call κ))) (hi : TInv c emp tracked fsb p)
    (h : perTargetP (fun t (p : World κ × List (List (Call κ))) =>
          visit (commitTravT c strat) true (p.1.idx.length + 1) (allStages p.1) t p) ts p = .ok p') :
    TInv c emp tracked fsb p' :=
  perTargetP_inv (Q := TInv c emp tracked fsb)
    (fun t q q' hq hv => visit_inv (commitTravT c strat)
      (fun sp a b ha hb => commitTravT_inv g htw hemp hsb sp a b ha hb) true _ _ t q q' hq hv)
    ts p p' hi h

/-! ## calls on metadata paths -/

/-- a call all of whose paths are metadata paths -/
def MetaOnly (c : Call κ) : Prop := ∀ p ∈ callPaths c, p.isMeta = true

theorem harmless_of_metaOnly {c : Call κ} (h : MetaOnly c) : Harmless c := by
  intro p hp
  have hm := h p (callWrites_sub c p hp)
  constructor
  · cases p <;> simp [P.isMeta] at hm <;> rfl
  · intro q hq; subst hq; simp [P.isMeta] at hm

theorem metaOnly_frame {c : Call κ} (h : MetaOnly c) :
    ∀ p ∈ callWrites c, (∀ q, p ≠ .ws q) ∧ ∀ k, p ≠ .ctmp k := by
  intro p hp
  have hm := h p (callWrites_sub c p hp)
  constructor
  · intro q hq; subst hq; simp [P.isMeta] at hm
  · intro k hk; subst hk; simp [P.isMeta] at hm

/-- the paths of a metadata rewrite -/
theorem metaWriteCalls_paths (atomic : Bool) (p tmp : P) (isEmp : κ → Bool) (x : κ) :
    ∀ c ∈ metaWriteCalls atomic p tmp isEmp x, ∀ q ∈ callPaths c, q = p ∨ q = tmp := by
  intro c hc q hq
  unfold metaWriteCalls at hc
  cases atomic <;> cases he : isEmp x <;> simp [he] at hc
  · rcases hc with rfl | rfl | rfl <;> simp [callPaths] at hq <;> simp [hq]
  · subst hc; simp [callPaths] at hq; simp [hq]
  · rcases hc with rfl | rfl | rfl | rfl <;> simp [callPaths] at hq <;> grind
  · rcases hc with rfl | rfl <;> simp [callPaths] at hq <;> grind

theorem stageWriteCalls_paths (c : CmdCfg κ) (idx : Index) (sp : Bytes) :
    ∀ x ∈ stageWriteCalls c idx sp, ∀ q ∈ callPaths x, q = .stageFile sp ∨ q = .stageTmp sp := by
  intro x hx q hq
  unfold stageWriteCalls at hx
  cases h : alookup idx sp with
  | none => simp [h] at hx
  | some stg =>
    simp only [h] at hx
    exact metaWriteCalls_paths _ _ _ _ _ x hx q hq

theorem stageWriteCalls_metaOnly (c : CmdCfg κ) (idx : Index) (sp : Bytes) :
    ∀ x ∈ stageWriteCalls c idx sp, MetaOnly x := by
  intro x hx q hq
  rcases stageWriteCalls_paths c idx sp x hx q hq with rfl | rfl <;> rfl

theorem metaPhase_metaOnly (c : CmdCfg κ) (idx : Index) (l : List Bytes) :
    ∀ x ∈ (l.map (stageWriteCalls c idx)).flatten, MetaOnly x := by
  intro x hx
  simp only [List.mem_flatten, List.mem_map] at hx
  obtain ⟨seg, ⟨sp, -, rfl⟩, hxs⟩ := hx
  exact stageWriteCalls_metaOnly c idx sp x hxs

/-- a call on cache / workspace paths writes no metadata path -/
theorem cacheOnly_not_writes {c : Call κ} (h : CacheOnly c) {p : P} (hp : p.isMeta = true) :
    p ∉ callWrites c := by
  intro hmem
  have := h p (callWrites_sub c p hmem)
  rw [hp] at this; cases this

/-! ## stage files: every prefix of the concatenated rewrites shows old or new -/

theorem take_append_le {α : Type} (l1 l2 : List α) {k : Nat} (h : k ≤ l1.length) :
    (l1 ++ l2).take k = l1.take k := by
  rw [List.take_append]
  have : k - l1.length = 0 := by omega
  simp [this]

theorem take_append_ge {α : Type} (l1 l2 : List α) {k : Nat} (h : l1.length ≤ k) :
    (l1 ++ l2).take k = l1 ++ l2.take (k - l1.length) := by
  rw [List.take_append, List.take_of_length_le h]

/-- after the complete atomic rewrite the temp name is free again -/
theorem metaWrite_tmp_free (emp : κ) (isEmp : κ → Bool) (fs : FS κ) (p tmp : P) (hne : tmp ≠ p) (x : κ) :
    (replay emp fs (metaWriteCalls true p tmp isEmp x)).get tmp = none := by
  have hsplit : metaWriteCalls true p tmp isEmp x =
      ([.createExcl tmp] ++ (if isEmp x then [] else [.writePart tmp, .write tmp x])) ++ [.rename tmp p] := by
    simp [metaWriteCalls]
  rw [hsplit, replay_append]
  generalize replay emp fs _ = fs1
  rw [replay_cons, replay_nil]
  exact get_rename_src hne

/-- the temp files of all stage files are absent -/
def StageTmpFree (fs : FS κ) : Prop := ∀ sp, fs.get (.stageTmp sp) = none

theorem stageWriteCalls_tmp_free (c : CmdCfg κ) (hat : stageAtomic = true) (emp : κ) (idx : Index)
    (sp : Bytes) {fs : FS κ} (h : StageTmpFree fs) :
    StageTmpFree (replay emp fs (stageWriteCalls c idx sp)) := by
  intro sp'
  by_cases hsp : sp' = sp
  · subst hsp
    unfold stageWriteCalls
    cases alookup idx sp' with
    | none => exact h sp'
    | some stg =>
      simp only [hat]
      exact metaWrite_tmp_free emp _ fs _ _ (by simp) _
  · rw [replay_get_frame]
    · exact h sp'
    · intro x hx hmem
      rcases stageWriteCalls_paths c idx sp x hx _ (callWrites_sub _ _ hmem) with h | h
      · cases h
      · injection h with h; exact hsp h

/-- **Metadata phase.** From a state without stage temp files, after every prefix of the concatenated
stage-file rewrites (atomic variant) every stage file holds what it held before the phase or the complete
encoding of the stage the final index holds. -/
theorem metaPhase_atomic (c : CmdCfg κ) (hat : stageAtomic = true) {emp : κ}
    (hemp : ∀ x, c.isEmp x = true → x = emp) (idx : Index) (sp : Bytes) :
    ∀ (l : List Bytes) (fs : FS κ) (old : Option (Entry κ)), StageTmpFree fs →
      (fs.get (.stageFile sp) = old ∨
        ∃ stg m, alookup idx sp = some stg ∧ fs.get (.stageFile sp) = some (.file (c.encStage stg) m)) →
      ∀ k, (replay emp fs ((l.map (stageWriteCalls c idx)).flatten.take k)).get (.stageFile sp) = old ∨
        ∃ stg m, alookup idx sp = some stg ∧
          (replay emp fs ((l.map (stageWriteCalls c idx)).flatten.take k)).get (.stageFile sp)
            = some (.file (c.encStage stg) m)
  | [], fs, old, _, h0, k => by simpa [replay] using h0
  | x :: l, fs, old, htf, h0, k => by
    simp only [List.map_cons, List.flatten_cons]
    -- what one segment does to the stage file `sp`, at every prefix
    have hseg : ∀ j, (replay emp fs ((stageWriteCalls c idx x).take j)).get (.stageFile sp) = old ∨
        ∃ stg m, alookup idx sp = some stg ∧
          (replay emp fs ((stageWriteCalls c idx x).take j)).get (.stageFile sp)
            = some (.file (c.encStage stg) m) := by
      intro j
      by_cases hx : x = sp
      · subst hx
        obtain hst | ⟨stg, hst⟩ : alookup idx x = none ∨ ∃ stg, alookup idx x = some stg := by
          cases alookup idx x with
          | none => exact .inl rfl
          | some s => exact .inr ⟨s, rfl⟩
        · have : stageWriteCalls c idx x = [] := by simp [stageWriteCalls, hst]
          rw [this, List.take_nil, replay_nil]; exact h0
        · have : stageWriteCalls c idx x =
              metaWriteCalls true (.stageFile x) (.stageTmp x) c.isEmp (c.encStage stg) := by
            simp [stageWriteCalls, hst, hat]
          rw [this]
          rcases meta_atomic emp c.isEmp hemp fs (.stageFile x) (.stageTmp x) (by simp) (htf x)
            (c.encStage stg) j with h | ⟨m, h⟩
          · rw [h]; exact h0
          · exact .inr ⟨stg, m, hst, h⟩
      · rw [replay_get_frame]
        · exact h0
        · intro y hy hmem
          rcases stageWriteCalls_paths c idx x y (List.mem_of_mem_take hy) _ (callWrites_sub _ _ hmem)
            with h | h
          · injection h with h; exact hx h.symm
          · cases h
    by_cases hk : k ≤ (stageWriteCalls c idx x).length
    · rw [take_append_le _ _ hk]
      exact hseg k
    · rw [take_append_ge _ _ (by omega), replay_append]
      refine metaPhase_atomic c hat hemp idx sp l _ old (stageWriteCalls_tmp_free c hat emp idx x htf) ?_ _
      have := hseg (stageWriteCalls c idx x).length
      rwa [List.take_length] at this

/-! ## stage files: after the complete phase the committed stages hold their new encoding -/

/-- after the complete atomic rewrite the file holds the new bytes -/
theorem metaWrite_final (emp : κ) (isEmp : κ → Bool) (hemp : ∀ c, isEmp c = true → c = emp) (fs : FS κ)
    (p tmp : P) (habs : fs.get tmp = none) (x : κ) :
    (replay emp fs (metaWriteCalls true p tmp isEmp x)).get p = some (.file x 0o600) := by
  have hsplit : metaWriteCalls true p tmp isEmp x =
      ([.createExcl tmp] ++ (if isEmp x then [] else [.writePart tmp, .write tmp x])) ++ [.rename tmp p] := by
    simp [metaWriteCalls]
  have htmp : (replay emp fs ([.createExcl tmp] ++ (if isEmp x then [] else [.writePart tmp, .write tmp x]))).get tmp
      = some (.file x 0o600) := by
    have h1 : (apply emp fs (.createExcl tmp)).get tmp = some (.file emp 0o600) := get_createExcl_self habs
    cases he : isEmp x with
    | true =>
      have := hemp x he; subst this
      simpa [replay] using h1
    | false =>
      have h2 := get_writePart_self (emp := emp) h1
      have h3 := get_write_self_torn (emp := emp) x h2
      simpa [replay] using h3
  rw [hsplit, replay_append]
  simpa [replay] using get_rename_dst (emp := emp) (d := p) htmp

/-- a stage on the list ends up with the encoding of the stage the index holds -/
theorem metaPhase_written (c : CmdCfg κ) (hat : stageAtomic = true) {emp : κ}
    (hemp : ∀ x, c.isEmp x = true → x = emp) (idx : Index) (sp : Bytes) (stg : Stage)
    (hst : alookup idx sp = some stg) :
    ∀ (l : List Bytes) (fs : FS κ), StageTmpFree fs →
      (sp ∈ l ∨ ∃ m, fs.get (.stageFile sp) = some (.file (c.encStage stg) m)) →
      ∃ m, (replay emp fs (l.map (stageWriteCalls c idx)).flatten).get (.stageFile sp)
        = some (.file (c.encStage stg) m)
  | [], fs, _, h => by
    rcases h with h | h
    · cases h
    · simpa [replay] using h
  | x :: l, fs, htf, h => by
    simp only [List.map_cons, List.flatten_cons, replay_append]
    refine metaPhase_written c hat hemp idx sp stg hst l _ (stageWriteCalls_tmp_free c hat emp idx x htf) ?_
    by_cases hx : x = sp
    · subst hx
      right
      have : stageWriteCalls c idx x =
          metaWriteCalls true (.stageFile x) (.stageTmp x) c.isEmp (c.encStage stg) := by
        simp [stageWriteCalls, hst, hat]
      rw [this]
      exact ⟨_, metaWrite_final emp c.isEmp hemp fs _ _ (htf x) _⟩
    · rcases h with h | ⟨m, h⟩
      · rcases List.mem_cons.1 h with h | h
        · exact absurd h.symm hx
        · exact .inl h
      · right
        refine ⟨m, ?_⟩
        rw [replay_get_frame]
        · exact h
        · intro y hy hmem
          rcases stageWriteCalls_paths c idx x y hy _ (callWrites_sub _ _ hmem) with h' | h'
          · injection h' with h'; exact hx h'.symm
          · cases h'

end Dud.Sys
