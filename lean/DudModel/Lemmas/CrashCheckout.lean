import DudModel.Lemmas.SysCheckoutRefine
import DudModel.Lemmas.CrashCmd
/-!
# Crash safety of the whole `dud checkout`: the world-level argument (C03 / C06, command level)

* `Pref Q`: a predicate holds after every prefix of a trace; composition
* `EntOK`, `AbsAt`, `AbsList`: the file system agrees with the logical workspace below a path — absent
  where the tree has nothing, the same bytes where it has a regular file, the same link where it has a link
  into the cache, a directory where it has a directory; `fsOfWorld` is such an abstraction (`absAt_init`)
* `KeptB` / `KeptP`: what happened to the entries the workspace held before the command — at a boundary
  between two artifacts (`KeptB`: kept, or a link into the cache replaced by a complete copy of that very
  object) and inside an artifact (`KeptP`: the link may be gone, the copy may be empty or incomplete)
* one file (`checkoutFileT_step`), the manifest entries (`checkoutChildrenT_step`), a directory
  (`checkoutNodeT_step`), one `LocalCache.Checkout` with its `MkdirAll` (`checkoutArtWT_step`), the outputs
  of a stage, the traversal (`CInv`, `checkout_traversal_inv`)
-/
namespace Dud.Sys
open Dud
variable {κ : Type}

/-! ## a predicate after every prefix -/

/-- `Q` holds in the state after every prefix of the trace (a crash after the k-th call) -/
def Pref (Q : FS κ → Prop) (emp : κ) (fs : FS κ) (calls : List (Call κ)) : Prop :=
  ∀ k, Q (replay emp fs (calls.take k))

theorem Pref.nil {Q : FS κ → Prop} {emp : κ} {fs : FS κ} (h : Q fs) : Pref Q emp fs [] := by
  intro k; simpa [replay] using h

theorem Pref.cons {Q : FS κ → Prop} {emp : κ} {fs : FS κ} {c : Call κ} {cs : List (Call κ)}
    (h0 : Q fs) (h : Pref Q emp (apply emp fs c) cs) : Pref Q emp fs (c :: cs) := by
  intro k
  cases k with
  | zero => simpa [replay] using h0
  | succ k => simpa [replay_cons] using h k

theorem Pref.start {Q : FS κ → Prop} {emp : κ} {fs : FS κ} {calls : List (Call κ)}
    (h : Pref Q emp fs calls) : Q fs := by
  simpa [replay] using h 0

theorem Pref.final {Q : FS κ → Prop} {emp : κ} {fs : FS κ} {calls : List (Call κ)}
    (h : Pref Q emp fs calls) : Q (replay emp fs calls) := by
  simpa using h calls.length

theorem Pref.append {Q : FS κ → Prop} {emp : κ} {fs : FS κ} {l1 l2 : List (Call κ)}
    (h1 : Pref Q emp fs l1) (h2 : Pref Q emp (replay emp fs l1) l2) : Pref Q emp fs (l1 ++ l2) := by
  intro k
  rw [List.take_append, replay_append]
  by_cases hk : k ≤ l1.length
  · have : k - l1.length = 0 := by omega
    simpa [this, replay] using h1 k
  · have : l1.take k = l1 := List.take_of_length_le (by omega)
    rw [this]
    exact h2 _

theorem Pref.mono {Q Q' : FS κ → Prop} {emp : κ} {fs : FS κ} {calls : List (Call κ)}
    (h : Pref Q emp fs calls) (hq : ∀ fs', Q fs' → Q' fs') : Pref Q' emp fs calls :=
  fun k => hq _ (h k)

/-- a path no call of the trace writes holds the same after every prefix -/
theorem replay_take_get_frame (emp : κ) (calls : List (Call κ)) (q : P) (fs : FS κ)
    (h : ∀ c ∈ calls, q ∉ callWrites c) (k : Nat) :
    (replay emp fs (calls.take k)).get q = fs.get q :=
  replay_get_frame emp _ q fs (fun c hc => h c (List.mem_of_mem_take hc))

/-! ## the file system agrees with the logical workspace -/

/-- what is found below an optional node -/
def getOpt (cur : Option (Node κ)) (r : List Name) : Option (Node κ) := cur.bind (fun n => getPath n r)

theorem getOpt_none (r : List Name) : getOpt (none : Option (Node κ)) r = none := rfl
theorem getOpt_some (n : Node κ) (r : List Name) : getOpt (some n) r = getPath n r := rfl
theorem getOpt_nil (cur : Option (Node κ)) : getOpt cur [] = cur := by
  cases cur <;> rfl

theorem getOpt_dir_cons (es : List (Name × Node κ)) (nm : Name) (r : List Name) :
    getOpt (some (.dir es)) (nm :: r) = getOpt (alookup es nm) r := by
  simp only [getOpt, Option.bind, getPath]
  cases alookup es nm <;> rfl

theorem getOpt_leaf_cons {n : Node κ} (hn : n.isDir = false) (nm : Name) (r : List Name) :
    getOpt (some n) (nm :: r) = none := by
  cases n with
  | dir es => simp [Node.isDir] at hn
  | file _ => rfl
  | link _ => rfl
  | other => rfl

/-- the file-system entry that stands for a node of the logical workspace (foreign links and special
files are not represented: nothing is claimed about them) -/
def EntOK : Option (Node κ) → Option (Entry κ) → Prop
  | none, e => e = none
  | some (.file x), e => ∃ m, e = some (.file x m)
  | some (.link (.obj d)), e => e = some (.link (.obj d))
  | some (.dir _), e => e = some .dir
  | some (.link (.foreign _)), _ => True
  | some .other, _ => True

/-- below `pre` the file system agrees with the (optional) node `cur` -/
def AbsAt (pre : List Name) (cur : Option (Node κ)) (fs : FS κ) : Prop :=
  ∀ r, EntOK (getOpt cur r) (fs.get (.ws (pre ++ r)))

/-- below `pre` the file system agrees with the entries `es` of a directory -/
def AbsList (pre : List Name) (es : List (Name × Node κ)) (fs : FS κ) : Prop :=
  ∀ nm r, EntOK (getOpt (alookup es nm) r) (fs.get (.ws (pre ++ nm :: r)))

theorem AbsAt.frame {pre : List Name} {cur : Option (Node κ)} {fs fs' : FS κ} (h : AbsAt pre cur fs)
    (hfr : ∀ r, fs'.get (.ws (pre ++ r)) = fs.get (.ws (pre ++ r))) : AbsAt pre cur fs' := by
  intro r; rw [hfr]; exact h r

theorem AbsList.of_dir {pre : List Name} {es : List (Name × Node κ)} {fs : FS κ}
    (h : AbsAt pre (some (.dir es)) fs) : AbsList pre es fs := by
  intro nm r
  have := h (nm :: r)
  rwa [getOpt_dir_cons] at this

theorem AbsList.child {pre : List Name} {es : List (Name × Node κ)} {fs : FS κ} (h : AbsList pre es fs)
    (nm : Name) : AbsAt (pre ++ [nm]) (alookup es nm) fs := by
  intro r
  have := h nm r
  simpa [List.append_assoc] using this

theorem AbsAt.dir {pre : List Name} {es : List (Name × Node κ)} {fs : FS κ}
    (h0 : fs.get (.ws pre) = some .dir) (h : AbsList pre es fs) : AbsAt pre (some (.dir es)) fs := by
  intro r
  cases r with
  | nil => simpa [getOpt, getPath, EntOK] using h0
  | cons nm r => rw [getOpt_dir_cons]; exact h nm r

theorem ws_append_ne_self (pre : List Name) (nm : Name) (r : List Name) :
    P.ws (pre ++ nm :: r) ≠ P.ws pre := by
  intro h
  have := congrArg (fun x => match x with | P.ws q => q.length | _ => 0) h
  simp at this

theorem ws_child_ne {pre : List Name} {a b : Name} (hab : a ≠ b) (r1 r2 : List Name) :
    P.ws (pre ++ a :: r1) ≠ P.ws (pre ++ [b] ++ r2) := by
  intro h
  simp at h
  exact hab h.1

/-! ## `fsOfWorld` agrees with the workspace of the world -/

mutual
theorem fsOfNode_get : ∀ (nd : Node κ) (pre r : List Name), uniqNode nd →
    EntOK (getPath nd r) (alookup (fsOfNode pre nd) (.ws (pre ++ r)))
  | .file c, pre, r, _ => by
    cases r with
    | nil => simp [fsOfNode, alookup, getPath, EntOK]
    | cons x r =>
      have : ¬ pre = pre ++ x :: r := fun h => ws_append_ne_self pre x r (by rw [← h])
      simp [fsOfNode, alookup, getPath, EntOK, this]
  | .link (.obj d), pre, r, _ => by
    cases r with
    | nil => simp [fsOfNode, alookup, getPath, EntOK]
    | cons x r =>
      have : ¬ pre = pre ++ x :: r := fun h => ws_append_ne_self pre x r (by rw [← h])
      simp [fsOfNode, alookup, getPath, EntOK, this]
  | .link (.foreign b), pre, r, _ => by
    cases r with
    | nil => simp [getPath, EntOK]
    | cons x r => simp [fsOfNode, alookup, getPath, EntOK]
  | .other, pre, r, _ => by
    cases r with
    | nil => simp [getPath, EntOK]
    | cons x r => simp [fsOfNode, alookup, getPath, EntOK]
  | .dir es, pre, r, hu => by
    simp only [uniqNode] at hu
    cases r with
    | nil => simp [fsOfNode, alookup, getPath, EntOK]
    | cons nm r =>
      have hne : ¬ P.ws pre = P.ws (pre ++ nm :: r) := fun h => ws_append_ne_self pre nm r h.symm
      have := fsOfList_get es pre nm r hu
      rw [getOpt] at this
      simp only [fsOfNode, alookup, beq_iff_eq, hne, if_false, getPath]
      cases hl : alookup es nm with
      | none => rw [hl] at this; exact this
      | some n => rw [hl] at this; exact this
theorem fsOfList_get : ∀ (es : List (Name × Node κ)) (pre : List Name) (nm : Name) (r : List Name),
    uniqList es → EntOK (getOpt (alookup es nm) r) (alookup (fsOfList pre es) (.ws (pre ++ nm :: r)))
  | [], pre, nm, r, _ => by simp [fsOfList, alookup, getOpt, EntOK]
  | (k, v) :: rest, pre, nm, r, hu => by
    simp only [uniqList] at hu
    obtain ⟨huv, hne, hur⟩ := hu
    simp only [fsOfList, alookup_append]
    by_cases hk : k = nm
    · subst hk
      have h1 := fsOfNode_get v (pre ++ [k]) r huv
      have hx : pre ++ [k] ++ r = pre ++ k :: r := by simp
      rw [hx] at h1
      have hB : alookup (fsOfList pre rest) (.ws (pre ++ k :: r)) = none := by
        apply alookup_none_of_keys
        intro e he heq
        obtain ⟨x, hx, names, hn⟩ := fsOfList_keys rest pre e he
        rw [hn] at heq
        exact ws_child_ne (Ne.symm (hne x hx)) r names heq.symm
      simp only [alookup, beq_self_eq_true, if_true, getOpt_some]
      cases hA : alookup (fsOfNode (pre ++ [k]) v) (.ws (pre ++ k :: r)) with
      | some b => rw [hA] at h1; exact h1
      | none => rw [hA] at h1; simp only [hB]; exact h1
    · have hA : alookup (fsOfNode (pre ++ [k]) v) (.ws (pre ++ nm :: r)) = none := by
        apply alookup_none_of_keys
        intro e he heq
        obtain ⟨names, hn⟩ := fsOfNode_keys v (pre ++ [k]) e he
        rw [hn] at heq
        exact ws_child_ne (Ne.symm hk) r names heq.symm
      simp only [hA, alookup, beq_iff_eq, hk, if_false]
      exact fsOfList_get rest pre nm r hur
end

theorem fsOf_get_ws (ctx : Ctx κ) (nd : Node κ) (s : Store κ) (q : List Name) :
    (fsOf ctx [] nd s).get (.ws q) = alookup (fsOfNode [] nd) (.ws q) := by
  simp only [fsOf, fsOfStore, FS.get, List.append_assoc, alookup_append]
  cases alookup (fsOfNode [] nd) (.ws q) with
  | some b => rfl
  | none =>
    have h1 : alookup (s.map (fun e => (P.obj e.1, Entry.file (e.2.bytes ctx) 0o444))) (.ws q) = none := by
      apply alookup_none_of_keys
      intro e he heq
      simp only [List.mem_map] at he
      obtain ⟨x, -, rfl⟩ := he
      cases heq
    have h2 : alookup (s.map (fun e => (P.shard (shardOf e.1), (Entry.dir : Entry κ)))) (.ws q) = none := by
      apply alookup_none_of_keys
      intro e he heq
      simp only [List.mem_map] at he
      obtain ⟨x, -, rfl⟩ := he
      cases heq
    simp [h1, h2, alookup]

/-- **the abstraction `fsOfWorld` agrees with the workspace of the world** -/
theorem absAt_init (c : CmdCfg κ) (w : World κ) (hu : uniqNode w.ws) :
    AbsAt [] (some w.ws) (fsOfWorld c w) := by
  intro r
  rw [fsOfWorld_get c w (by simp), fsOf_get_ws, getOpt_some]
  simpa using fsOfNode_get w.ws [] r hu

/-- the objects of the store are in the cache of the file system -/
def ObjIn (ctx : Ctx κ) (s : Store κ) (fs0 : FS κ) : Prop :=
  ∀ d o, s.get d = some o → ∃ m, fs0.get (.obj d) = some (.file (o.bytes ctx) m)

theorem objIn_init (c : CmdCfg κ) (w : World κ) : ObjIn c.cfg.ctx w.store (fsOfWorld c w) := by
  intro d o h
  refine ⟨0o444, ?_⟩
  rw [fsOfWorld_get c w (by simp), fsOf_get_obj, h]
  rfl

end Dud.Sys
