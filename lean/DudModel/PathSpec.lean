import DudModel.Path
/-!
# Component-level specification of Go's `path/filepath` model (`DudModel/Path.lean`)

`Dud.Path` models `filepath.Clean`, `Join`, `Rel`, `IsAbs` on raw byte strings.  This file gives the
vocabulary in which the behaviour of those functions is *specified*: a path is a list of
components (`Comps`), a component is "good" when `filepath.Clean` leaves it alone (not empty, not
".", not "..", no '/'), and

* `absOf cs`  is the absolute clean path  `"/" ++ c₁ ++ "/" ++ … ++ cₙ`   (`"/"` for `cs = []`),
* `relOf cs`  is the relative clean path  `c₁ ++ "/" ++ … ++ cₙ`          (`"."` for `cs = []`),
* `resolve base segs` is the *lexical walk*: start in the directory `base`, read the raw segments
  of an argument (what `strings.Split(arg, "/")` yields) one after the other; `""` and `"."` stay,
  `".."` goes up one level (and stays at `/`), any other segment goes down,
* `denote cwd arg` is the directory entry an argument denotes lexically when the process is in
  `cwd`: the walk starts at `/` for an absolute argument and at `cwd` otherwise.

The algebra (`clean_idem`, `clean_absOf`, `join_absOf_rel`, `rel_absOf`, `join_absOf_updown`, …) is
proved in `DudModel/Lemmas/PathSpec.lean`; nothing in `Dud.Path` is redefined.  Everything is
byte-level: names that are not valid UTF-8 are ordinary components.

Core-only; imports nothing but `DudModel.Path`, so it can be used from either lemma family.
-/
namespace Dud.PathSpec
open Dud.Path

/-- a path as a list of components -/
abbrev Comps := List Bytes

/-- a component that `filepath.Clean` keeps as it is: not empty, not ".", not "..", no '/' inside.
(Same shape as `Dud.GoodComp` of `OwnerSpec.lean`; restated here so that this file only depends on
`DudModel.Path`.) -/
def GoodComp (c : Bytes) : Prop := c ≠ [] ∧ c ≠ [dot] ∧ c ≠ dotdot ∧ slash ∉ c

instance (c : Bytes) : Decidable (GoodComp c) := by unfold GoodComp; exact inferInstance

/-- every component is good -/
def Good (cs : Comps) : Prop := ∀ c ∈ cs, GoodComp c

instance (cs : Comps) : Decidable (Good cs) := by unfold Good; exact inferInstance

/-- no segment contains '/' (true of everything `strings.Split(s, "/")` returns) -/
def SlashFree (cs : List Bytes) : Prop := ∀ c ∈ cs, slash ∉ c

instance (cs : List Bytes) : Decidable (SlashFree cs) := by unfold SlashFree; exact inferInstance

/-- the absolute clean path with these components; `absOf [] = "/"` -/
def absOf (cs : Comps) : Bytes := slash :: intercalate cs

/-- the relative clean path with these components; `relOf [] = "."` -/
def relOf (cs : List Bytes) : Bytes := if cs.isEmpty then [dot] else intercalate cs

/-- `k` times ".." -/
def ups (k : Nat) : List Bytes := List.replicate k dotdot

/-- all but the last `k` components (everything is dropped when `k` exceeds the length) -/
def dropLastN (k : Nat) (cs : List Bytes) : List Bytes := cs.take (cs.length - k)

/-- a segment that `Clean` drops: "" (doubled, leading or trailing slash) or "." -/
def noise (c : Bytes) : Bool := c == [] || c == [dot]

/-- the segments of a string that are not noise -/
def segsOf (s : Bytes) : List Bytes := (splitSlash s).filter (fun c => !noise c)

/-- one step of `normAux`: the effect of one raw segment on the (reversed) stack of components -/
def step (rooted : Bool) (acc : List Bytes) (c : Bytes) : List Bytes :=
  if c == [] || c == [dot] then acc
  else if c == dotdot then
    match acc with
    | [] => if rooted then [] else [dotdot]
    | a :: as => if a == dotdot then dotdot :: acc else as
  else c :: acc

/-- lexical walk from the absolute directory `base` along raw segments -/
def resolve (base : Comps) (segs : List Bytes) : Comps :=
  (segs.foldl (step true) base.reverse).reverse

/-- the absolute location (as components) that `arg` denotes lexically for a process whose
working directory is `absOf cwd` -/
def denote (cwd : Comps) (arg : Bytes) : Comps :=
  resolve (if isAbs arg then [] else cwd) (splitSlash arg)

end Dud.PathSpec

/-! ## the model of `pathAbsThenRel` (executed by the driver, op `rebase`, against the real function) -/
namespace Dud.C01path
open Dud.Path

/-- `filepath.Abs(arg)` for a process whose working directory is `cwd` (`unixAbs`):
`Clean(arg)` for an absolute argument, `Join(cwd, arg)` otherwise. -/
def absPath (cwd arg : Bytes) : Bytes := if isAbs arg then clean arg else join [cwd, arg]

/-- `pathAbsThenRel(root, arg)` of `src/cmd/root.go` for a process whose working directory is
`cwd`; `none` is the error of `filepath.Rel`. -/
def pathAbsThenRel (root cwd arg : Bytes) : Option Bytes := rel root (absPath cwd arg)

end Dud.C01path
