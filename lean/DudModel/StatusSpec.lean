import DudModel.Spec
/-!
# Specification vocabulary for status

`UpToDate ctx s fuel isDir sum n`: the workspace node `n` is what the store holds under the
manifest entry `(isDir, sum)`, read off the store alone:
* file entry: the checksum is well formed, the object is in the cache, and `n` is a regular file
  with exactly the object's bytes or a link to exactly that object;
* directory entry: the checksum is well formed and the manifest object is in the cache (a directory
  whose manifest is not recorded, or recorded but absent from the cache, is never up to date —
  `dirArtifactStatus` starts `ContentsMatch` from `HasChecksum && ChecksumInCache`), `n` is a
  directory, every entry of that manifest is present and up to date, and the listing has no entry
  the manifest does not name.
`fuel` bounds the directory nesting exactly as in `dirStatus`.
-/
namespace Dud

variable {κ : Type}

def FileOK (ctx : Ctx κ) (s : Store κ) (sum : Digest) (n : Node κ) : Prop :=
  hasSum sum = true ∧ ∃ o, s.get sum = some o ∧ (n = .file (o.bytes ctx) ∨ n = .link (.obj sum))

/-- the manifest `dirArtifactStatus` walks to build the child statuses: the stored manifest, or the
empty one if the checksum is missing or not in the cache.  In the latter case the directory is *not*
up to date whatever the walk finds (see `UpToDate`); this helper only describes which children get
reported. -/
def statusManifest (ctx : Ctx κ) (s : Store κ) (sum : Digest) : Except Err (List Child) :=
  if hasSum sum && s.has sum then readManifest ctx s sum else .ok []

def UpToDate (ctx : Ctx κ) (s : Store κ) : Nat → Bool → Digest → Node κ → Prop
  | 0, isDir, sum, n => if isDir then False else FileOK ctx s sum n
  | fuel + 1, isDir, sum, n =>
    if isDir then
      ∃ es cs, n = .dir es ∧ (hasSum sum = true ∧ s.has sum = true) ∧
        readManifest ctx s sum = .ok cs ∧
        (∀ k ∈ cs, ∃ nk, alookup es k.name = some nk ∧ UpToDate ctx s fuel k.isDir k.sum nk) ∧
        (∀ e ∈ es, (findChild cs e.1).isSome = true)
    else FileOK ctx s sum n

mutual
/-- no "incorrect file type" anywhere: every directory status sits on a workspace directory -/
def Status.typed : Status → Bool
  | ⟨_, isDir, _, ws, _, _, _, children⟩ => (!isDir || ws == .directory) && typedList children
def typedList : List Status → Bool
  | [] => true
  | c :: r => c.typed && typedList r
end

/-! ## the tree the store holds under an entry, and equality of trees as finite maps -/

def storedFile (ctx : Ctx κ) (s : Store κ) (sum : Digest) : Option (Node κ) :=
  if hasSum sum then (s.get sum).map (fun o => .file (o.bytes ctx)) else none

def storedChildren (f : Child → Option (Node κ)) : List Child → Option (List (Name × Node κ))
  | [] => some []
  | k :: r =>
    match f k, storedChildren f r with
    | some n, some l => some ((k.name, n) :: l)
    | _, _ => none

/-- the tree stored under `c`, purely from the store (manifest order); `none` if some object needed
is missing or unreadable, or the nesting exceeds `fuel` -/
def stored (ctx : Ctx κ) (s : Store κ) : Nat → Child → Option (Node κ)
  | 0, c => if c.isDir then none else storedFile ctx s c.sum
  | fuel + 1, c =>
    if c.isDir then
      if hasSum c.sum && s.has c.sum then
        match readManifest ctx s c.sum with
        | .ok cs => (storedChildren (stored ctx s fuel) cs).map .dir
        | .error _ => none
      else none
    else storedFile ctx s c.sum

mutual
/-- equality of trees as finite maps: same entry names at every level (order-insensitive), equal
leaves -/
def SameTree : Node κ → Node κ → Prop
  | .dir es, n' => ∃ es', n' = .dir es' ∧ SameList es es' ∧
      ∀ e' ∈ es', (alookup es e'.1).isSome = true
  | .file c, n' => n' = .file c
  | .link l, n' => n' = .link l
  | .other, n' => n' = .other
def SameList : List (Name × Node κ) → List (Name × Node κ) → Prop
  | [], _ => True
  | (nm, n) :: r, es' => (∃ n', alookup es' nm = some n' ∧ SameTree n n') ∧ SameList r es'
end

end Dud
