import DudModel.Blake3Spec
import DudModel.Hasher
/-!
# The incremental (streaming) BLAKE3 hasher as a state machine

Core-only.  A model of an incremental BLAKE3 implementation in the style of the BLAKE3 reference
implementation (`reference_impl.rs`: `Hasher::update`, `add_chunk_chaining_value`, `finalize`),
over the abstract compression interfaces of `DudModel/Blake3Spec.lean`.

Two machines:

* `State` / `write` / `sum` (tree layer, over `Params`): the state is the bytes of the current, still
  open chunk, the number of completed chunks and the stack of subtree chaining values.  `write`
  consumes an arbitrary byte string in pieces of `min (1024 - |open chunk|) |input|` bytes, as the
  reference loop does; a full chunk is closed only when MORE input arrives (the last chunk of the
  input must be finalised differently); closing pushes the chunk's chaining value and merges it with
  the stack top once per trailing zero bit of the new chunk count (`addChunkCV`).  `sum` is the
  non-destructive finalisation: the open chunk's (lazy) output is folded with the stack from top to
  bottom and only the last compression gets the ROOT flag.
* `BState` / `bwrite` / `bsum` (block layer, over `BlockParams`): the same machine in which the open
  chunk is NOT kept as bytes but as the reference implementation's `ChunkState`: chaining value,
  a block buffer of at most 64 bytes, and the number of blocks compressed so far; a full block buffer
  is compressed only when more input arrives.

Nothing here recomputes anything from "all bytes so far": the only data kept are the open chunk
(resp. the open block and a chaining value), a counter, and the stack.
-/
namespace Dud.Blake3Incr
open Dud.Blake3Spec

variable {CV Digest : Type}

/-! ## Tree layer -/

/-- State of the incremental hasher. -/
structure State (CV : Type) where
  /-- bytes of the current, still open chunk (at most 1024 in every reachable state) -/
  cur : Bytes
  /-- number of completed chunks = chunk counter of the open chunk -/
  n : Nat
  /-- chaining values of completed subtrees, head = top of the stack -/
  stack : List CV

/-- `Reset`: forget everything. -/
def reset (_ : State CV) : State CV := { cur := [], n := 0, stack := [] }

/-- The reference implementation's `add_chunk_chaining_value(new_cv, total_chunks)`:
```
while total_chunks & 1 == 0 { new_cv = parent_cv(pop_stack(), new_cv); total_chunks >>= 1 }
push_stack(new_cv)
```
`total` is the number of completed chunks INCLUDING the new one.  (On an empty stack with an even
`total` the reference implementation would underflow; this cannot happen in reachable states, the
model pushes.) -/
def addChunkCV (P : Params CV Digest) : List CV → CV → Nat → List CV
  | [], cv, _ => [cv]
  | top :: rest, cv, total =>
    if total % 2 = 1 then cv :: top :: rest
    else addChunkCV P rest (P.parentCV top cv) (total / 2)

/-- Close the open chunk: compute its chaining value (as a NON-root chunk), push and merge, and
start the next chunk. -/
def closeChunk (P : Params CV Digest) (s : State CV) : State CV :=
  { cur := [], n := s.n + 1, stack := addChunkCV P s.stack (P.chunkCV s.cur s.n) (s.n + 1) }

/-- A full open chunk is closed when more input arrives. -/
def closeIfFull (P : Params CV Digest) (s : State CV) : State CV :=
  if s.cur.length = 1024 then closeChunk P s else s

/-- The `update` loop: `fuel` bounds the number of iterations (the input length suffices). -/
def writeF (P : Params CV Digest) : Nat → State CV → Bytes → State CV
  | 0, s, _ => s
  | fuel + 1, s, input =>
    if input.length = 0 then s
    else
      let s1 := closeIfFull P s
      let take := min (1024 - s1.cur.length) input.length
      writeF P fuel { s1 with cur := s1.cur ++ input.take take } (input.drop take)

/-- `Write`: consume an arbitrary byte string. -/
def write (P : Params CV Digest) (s : State CV) (input : Bytes) : State CV :=
  writeF P input.length s input

/-- `Sum`: non-destructive finalisation.  The output of the open chunk is folded with the stack from
top to bottom; every intermediate node is compressed to a chaining value, the last one as root. -/
def sum (P : Params CV Digest) (s : State CV) : Digest :=
  (s.stack.foldl (fun (out : Node CV) (cv : CV) => Node.parent cv (out.cv P))
      (Node.chunk s.cur s.n)).root P

/-- The state invariant under which `write` behaves (every state reachable from `reset` has it). -/
def WF (s : State CV) : Prop := s.cur.length ≤ 1024

/-- Semantics of `write`, one byte at a time (theorem `write_eq_foldl`). -/
def pushByte (P : Params CV Digest) (s : State CV) (b : UInt8) : State CV :=
  let s1 := closeIfFull P s
  { s1 with cur := s1.cur ++ [b] }

/-- The incremental hasher as a `hash.Hash` in the sense of `DudModel/Hasher.lean`. -/
def incrHasher (P : Params CV Bytes) : Dud.Hasher.HasherSpec (State CV) where
  reset := reset
  write := write P
  sum := sum P

/-! ## Block layer -/

/-- The reference implementation's `ChunkState` (the chunk counter lives in `BState.n`). -/
structure ChunkState (CV : Type) where
  /-- chaining value after the blocks compressed so far -/
  cv : CV
  /-- buffered block, at most 64 bytes in every reachable state -/
  buf : Bytes
  /-- number of blocks compressed so far (`blocks = 0` ⇔ the next compression carries CHUNK_START) -/
  blocks : Nat

/-- State of the block-buffering incremental hasher. -/
structure BState (CV : Type) where
  chunk : ChunkState CV
  n : Nat
  stack : List CV

def ChunkState.init (B : BlockParams CV Digest) : ChunkState CV := { cv := B.iv, buf := [], blocks := 0 }

/-- number of bytes absorbed by the open chunk (`ChunkState::len`) -/
def ChunkState.len (c : ChunkState CV) : Nat := 64 * c.blocks + c.buf.length

/-- A full block buffer is compressed when more input arrives. -/
def ChunkState.flushIfFull (B : BlockParams CV Digest) (ctr : Nat) (c : ChunkState CV) : ChunkState CV :=
  if c.buf.length = 64 then
    { cv := B.compressBlock c.cv c.buf ctr (c.blocks == 0), buf := [], blocks := c.blocks + 1 }
  else c

/-- `ChunkState::update`: absorb bytes (the caller guarantees they fit into the chunk). -/
def ChunkState.updateF (B : BlockParams CV Digest) (ctr : Nat) : Nat → ChunkState CV → Bytes → ChunkState CV
  | 0, c, _ => c
  | fuel + 1, c, input =>
    if input.length = 0 then c
    else
      let c1 := c.flushIfFull B ctr
      let take := min (64 - c1.buf.length) input.length
      ChunkState.updateF B ctr fuel { c1 with buf := c1.buf ++ input.take take } (input.drop take)

def ChunkState.update (B : BlockParams CV Digest) (ctr : Nat) (c : ChunkState CV) (input : Bytes) :
    ChunkState CV :=
  ChunkState.updateF B ctr input.length c input

/-- `ChunkState::output().chaining_value()` -/
def ChunkState.outCV (B : BlockParams CV Digest) (ctr : Nat) (c : ChunkState CV) : CV :=
  B.finalCV c.cv c.buf ctr (c.blocks == 0)

/-- `ChunkState::output().root_output_bytes()` -/
def ChunkState.outRoot (B : BlockParams CV Digest) (ctr : Nat) (c : ChunkState CV) : Digest :=
  B.finalRoot c.cv c.buf ctr (c.blocks == 0)

def breset (B : BlockParams CV Digest) (_ : BState CV) : BState CV :=
  { chunk := ChunkState.init B, n := 0, stack := [] }

def bcloseIfFull (B : BlockParams CV Digest) (s : BState CV) : BState CV :=
  if s.chunk.len = 1024 then
    { chunk := ChunkState.init B, n := s.n + 1,
      stack := addChunkCV B.toParams s.stack (s.chunk.outCV B s.n) (s.n + 1) }
  else s

/-- The `Hasher::update` loop over the chunk state. -/
def bwriteF (B : BlockParams CV Digest) : Nat → BState CV → Bytes → BState CV
  | 0, s, _ => s
  | fuel + 1, s, input =>
    if input.length = 0 then s
    else
      let s1 := bcloseIfFull B s
      let take := min (1024 - s1.chunk.len) input.length
      bwriteF B fuel { s1 with chunk := s1.chunk.update B s1.n (input.take take) } (input.drop take)

def bwrite (B : BlockParams CV Digest) (s : BState CV) (input : Bytes) : BState CV :=
  bwriteF B input.length s input

/-- The lazy output of the open chunk or of a parent node (`Output` of the reference
implementation, specialised to what `finalize` needs). -/
inductive BOut (CV : Type) where
  | chunk (c : ChunkState CV) (ctr : Nat)
  | parent (l r : CV)

def BOut.cv (B : BlockParams CV Digest) : BOut CV → CV
  | .chunk c ctr => c.outCV B ctr
  | .parent l r => B.parentCV l r

def BOut.root (B : BlockParams CV Digest) : BOut CV → Digest
  | .chunk c ctr => c.outRoot B ctr
  | .parent l r => B.parentRoot l r

def bsum (B : BlockParams CV Digest) (s : BState CV) : Digest :=
  (s.stack.foldl (fun (out : BOut CV) (cv : CV) => BOut.parent cv (out.cv B))
      (BOut.chunk s.chunk s.n)).root B

/-- The block-buffering incremental hasher as a `hash.Hash`. -/
def blockHasher (B : BlockParams CV Bytes) : Dud.Hasher.HasherSpec (BState CV) where
  reset := breset B
  write := bwrite B
  sum := bsum B

end Dud.Blake3Incr
