import DudModel.Blake3
import DudModel.Blake3Total
import DudModel.World
import DudModel.Render
import DudModel.Generated.Facts
import DudModel.Hasher
import DudModel.Same
import DudModel.Lock
import DudModel.Sys
import DudModel.SysCmd
import DudModel.SysCheckout
import DudModel.PathSpec
/-!
# `dudmodel` — line-protocol driver of the executable model

  dudmodel sim      : cases on stdin (see DESIGN §4.3), expected observables on stdout
  dudmodel b3       : one file path per line on stdin, BLAKE3 hex per line on stdout
  dudmodel b3hex    : one hex string per line, BLAKE3 hex of the decoded bytes per line
-/
open Dud

/-! ## helpers -/

def hexVal (c : Char) : Nat :=
  if '0' ≤ c && c ≤ '9' then c.toNat - 48
  else if 'a' ≤ c && c ≤ 'f' then c.toNat - 87
  else if 'A' ≤ c && c ≤ 'F' then c.toNat - 55 else 0

def unhex (s : String) : Bytes :=
  let rec go : List Char → Bytes
    | a :: b :: r => (hexVal a * 16 + hexVal b).toUInt8 :: go r
    | _ => []
  if s == "-" then [] else go s.toList

def hexOf (b : Bytes) : String :=
  if b.isEmpty then "-" else
  String.ofList (b.foldr (fun (x : UInt8) acc => Blake3.hexDigit (x >>> 4) :: Blake3.hexDigit (x &&& 15) :: acc) [])

def ba (b : Bytes) : ByteArray := ByteArray.mk b.toArray

def genContent (seed len : Nat) : ByteArray := Id.run do
  let mut out := ByteArray.emptyWithCapacity len
  for i in [0:len] do
    let j := i % 257
    out := out.push ((seed + j * j * 7 + j + (i / 257) * 3) % 256).toUInt8
  return out

def parseContent (s : String) : ByteArray :=
  match s.splitOn ":" with
  | ["g", seed, len] => genContent seed.toNat! len.toNat!
  | ["z", seed, len] =>
    -- the first (seed % 4)/4 of the file as in "g", the rest zeros
    let s := seed.toNat!
    let n := len.toNat!
    let k := (s % 4) * n / 4
    Id.run do
      let mut out := genContent s k
      for _ in [0:n - k] do
        out := out.push 0
      return out
  | ["h", hx] => ba (unhex hx)
  | ["t", seed, len, k] =>
    -- as "g", with the last k bytes inverted
    let b := genContent seed.toNat! len.toNat!
    let n := b.size
    Id.run do
      let mut out := b
      for j in [n - k.toNat!:n] do
        out := out.set! j (out.get! j ^^^ 0xFF)
      return out
  | [kind, seed, len, total] =>
    -- "sp" / "sd": `len` bytes as in "g", then zeros up to `total` (a hole in the real file, or written out: the same bytes)
    if kind == "sp" || kind == "sd" then
      Id.run do
        let mut out := genContent seed.toNat! len.toNat!
        for _ in [0:total.toNat! - len.toNat!] do
          out := out.push 0
        return out
    else ByteArray.empty
  | _ => ByteArray.empty

/-- the checksum of a byte string: the TOTAL BLAKE3 (`DudModel/Blake3Total.lean`), proved equal to the list specification
`hashSpecReal` for every input (`Props/C14total.lean: hashT_eq_spec`, `hashT_hex`) -/
def H (b : ByteArray) : Digest := Blake3.toHex (Blake3T.hash b)

def theCtx : Ctx ByteArray :=
  { H := H
    encMan := fun sch p cs => ba (GoJson.manifest sch p cs)
    decBlob := fun _ => none
    reload := fun _ c => c
    nameOK := fun nm => GoJson.validUtf8 (nm.length + 1) nm }

def theCfg : Cfg ByteArray :=
  { ctx := theCtx, ofBytes := ba, toBytes := fun b => b.toList,
    walkAccumulates := Dud.Facts.ownerWalkAccumulates, fuel := 400 }

/-! ## the stage-command language (`tools/vcmd`) -/

def str (s : String) : Bytes := s.toUTF8.toList

partial def readNode (lossy : Bool) (w : World ByteArray) : Node ByteArray → Option Bytes
  | .file c => some (if lossy then str (toString c.size) else c.toList)
  | .link (.obj d) => match w.store.get d with
    | some o => some (if lossy then str (toString (o.bytes theCtx).size) else (o.bytes theCtx).toList)
    | none => none
  | .link (.foreign _) => none
  | .other => none
  | .dir es =>
    let sorted := es.toArray.qsort (fun a b => decide (a.1 < b.1)) |>.toList
    sorted.foldl (fun acc (nm, n) =>
      match acc, readNode lossy w n with
      | some a, some b => some (a ++ nm ++ str "=" ++ b ++ str ";")
      | _, _ => none) (some [])

def splitOnByte (sep : UInt8) : Bytes → List Bytes
  | [] => [[]]
  | b :: r =>
    if b == sep then [] :: splitOnByte sep r
    else match splitOnByte sep r with
      | [] => [[b]]
      | x :: xs => (b :: x) :: xs

def splitSpace (b : Bytes) : List Bytes := (splitOnByte 0x20 b).filter (fun x => !x.isEmpty)

/-- `vcmd <id> <out>… -- <in>…` -/
def execCmd : Exec ByteArray := fun stg w =>
  match splitSpace stg.cmd with
  | prog :: id :: rest =>
    -- the command is started in the stage's working directory, which must exist
    if stg.wd != [Path.dot] && !(match getPath w.ws (Path.comps stg.wd) with | some (.dir _) => true | _ => false) then .error .other else
    -- `vprobe …` looks but does not touch
    if prog == str "vprobe" then .ok w else
    -- `vfail <id> <code>` touches nothing and exits non-zero
    if prog == str "vfail" then .error .other else
    let outs := rest.takeWhile (· != str "--")
    let ins := (rest.dropWhile (· != str "--")).drop 1
    -- `vlen …`: like vcmd, but only the lengths of the input files matter
    let lossy := prog == str "vlen"
    let inContents := ins.map fun p => (getPath w.ws (Path.comps p)).bind (readNode lossy w)
    if inContents.any Option.isNone then .error .other else
    let payload := id ++ str "(" ++ Path.intercalate (inContents.map (·.getD [])) ++ str ")"
    let ws' := outs.foldl (fun (ws : Option (Node ByteArray)) o =>
      match ws with
      | none => none
      | some ws =>
        let isDirOut := o.getLast? == some 0x2F
        let comps := Path.comps o
        let ws := delPath ws comps
        if isDirOut then
          setPath ws comps (.dir [(str "f", .file (ba (payload ++ str "#f"))),
                                  (str "sub", .dir [(str "deep", .dir [(str "h", .file (ba (payload ++ str "#h")))]),
                                                    (str "g", .file (ba (payload ++ str "#g")))])])
        else setPath ws comps (.file (ba (payload ++ str "@" ++ o)))) (some w.ws)
    match ws' with
    | none => .error .other
    | some ws'' => .ok { w with ws := ws'' }
  | _ => .error .other

/-! ## printing -/

partial def dumpNode (pre : Bytes) (n : Node ByteArray) (acc : Array String) : Array String :=
  match n with
  | .file c => acc.push s!"w {hexOf pre} f:{H c}"
  | .link (.obj d) => acc.push s!"w {hexOf pre} l:obj:{d}"
  | .link (.foreign live) => acc.push s!"w {hexOf pre} l:foreign:{if live then 1 else 0}"
  | .other => acc.push s!"w {hexOf pre} o"
  | .dir es =>
    let acc := if pre.isEmpty then acc else acc.push s!"w {hexOf pre} d"
    es.foldl (fun acc (nm, c) => dumpNode (if pre.isEmpty then nm else pre ++ [0x2F] ++ nm) c acc) acc

def storeKeys (s : Store ByteArray) : List Digest := (s.map (·.1)).eraseDups

def dumpStore (tag : String) (s : Store ByteArray) (withSum : Bool) : Array String :=
  (storeKeys s).foldl (fun acc d =>
    match s.get d with
    | some o => acc.push (if withSum then s!"{tag} {d} {o.digest theCtx}" else s!"{tag} {d}")
    | none => acc) #[]

def flagsOf (a : Art) : String :=
  let f := (if a.isDir then "d" else "") ++ (if a.noRec then "r" else "") ++ (if a.skip then "s" else "")
  if f.isEmpty then "-" else f

def dumpStages (idx : Index) : Array String :=
  idx.foldl (fun acc (sp, stg) =>
    let arts := (stg.inputs.map fun a => s!" i:{hexOf a.path}:{if a.sum.isEmpty then "-" else a.sum}") ++
                (stg.outputs.map fun a => s!" o:{hexOf a.path}:{if a.sum.isEmpty then "-" else a.sum}:{flagsOf a}")
    acc.push (s!"s {hexOf sp} {if stg.sum.isEmpty then "-" else stg.sum}" ++ String.join arts)) #[]

def b01 (b : Bool) : String := if b then "1" else "0"

partial def statusTree (st : Status) : String :=
  let kids := st.children.toArray.qsort (fun a b => decide (a.name < b.name)) |>.toList
  s!"({hexOf st.name} {b01 st.isDir} {st.ws.toString.replace " " "_"} {b01 st.has} {b01 st.inCache} {b01 st.cm}" ++
    String.join (kids.map fun k => " " ++ statusTree k) ++ ")"

def dumpStatus (w : World ByteArray) : Array String :=
  w.stat.foldl (fun acc (sp, has, ok, sts) =>
    let acc := acc.push s!"t {hexOf sp} {if ok then "up-to-date" else if has then "modified" else "not_checksummed"}"
    sts.foldl (fun acc st => acc.push s!"a {hexOf sp} {hexOf st.name} {hexOf (str st.render)} {statusTree st}") acc) #[]

def dumpWorld (w : World ByteArray) : Array String :=
  (dumpNode [] w.ws #[]).qsort (· < ·) ++ (dumpStore "c" w.store true).qsort (· < ·) ++
  (dumpStore "r" w.remote false).qsort (· < ·) ++ dumpStages w.idx

/-! ## case interpreter -/

def parseArtSpec (s : String) : Option (Bool × Art) :=
  match s.splitOn ":" with
  | [io, p, fl] =>
    some (io == "in", { path := unhex p, isDir := fl.contains 'd', noRec := fl.contains 'r',
                        skip := fl.contains 's' || io == "in" })
  | _ => none

def parseStage (toks : List String) : Stage :=
  toks.foldl (fun (stg : Stage) t =>
    if t.startsWith "cmd=" then { stg with cmd := unhex (t.drop 4).toString }
    else if t.startsWith "wd=" then { stg with wd := unhex (t.drop 3).toString }
    else match parseArtSpec t with
      | some (true, a) => { stg with inputs := insertArt a stg.inputs }
      | some (false, a) => { stg with outputs := insertArt a stg.outputs }
      | none => stg) {}

def insertStage (idx : Index) (sp : Bytes) (stg : Stage) : Index :=
  let rec go : Index → Index
    | [] => [(sp, stg)]
    | x :: r => if sp == x.1 then (sp, stg) :: r
                else if decide (sp < x.1) then (sp, stg) :: x :: r else x :: go r
  go idx

def strat (s : String) : Strat := if s == "c" then .copy else .link

/-- sorted list of (digest, object) the harness can address by position -/
def sortedObjs (w : World ByteArray) : List (Digest × Obj ByteArray) :=
  let ks := (storeKeys w.store).toArray.qsort (· < ·) |>.toList
  ks.filterMap fun d => (w.store.get d).map (d, ·)

def isBlob : Obj ByteArray → Bool | .blob _ => true | _ => false

/-- choose an object of the cache: `<k>` the k-th (sorted, modulo) among `cands`; `m<k>` the k-th manifest;
`p<hexpath>` the object holding the content of the workspace file at that path -/
def pickObj (w : World ByteArray) (sel : String) (blobsOnly : Bool) : Option Digest :=
  if sel.startsWith "r" then
    -- the object RECORDED for the artifact (input or output of some stage) with this path, e.g. the manifest of a directory
    let ap := unhex (sel.drop 1).toString
    let arts := w.idx.flatMap fun (_, stg) => stg.outputs ++ stg.inputs
    match arts.find? (fun a => a.path == ap && a.sum != "" && w.store.has a.sum) with
    | some a => some a.sum
    | none => none
  else if sel.startsWith "p" then
    match getPath w.ws (Path.comps (unhex (sel.drop 1).toString)) with
    | some (.link (.obj d)) => if w.store.has d then some d else none
    | some (.file c) => let d := H c; if w.store.has d then some d else none
    | _ => none
  else
    let onlyMan := sel.startsWith "m"
    let n := if onlyMan then (sel.drop 1).toString else sel
    let objs := (sortedObjs w).filter fun (_, o) => (if onlyMan then !isBlob o else (!blobsOnly || isBlob o))
    (objs[n.toNat! % (max objs.length 1)]?).map (·.1)

/-- rewrite the manifests in the old schema, bottom-up; `sel = none`: all of them, `some cs`: those whose
(original) digest starts with one of the characters `cs` — the others keep their schema and are only
re-keyed when one of their children was. Returns the digest renaming. -/
partial def toOldSchema (w : World ByteArray) (sel : Option String) : World ByteArray × List (Digest × Digest) := Id.run do
  let selected := fun (d : Digest) => match sel with
    | none => true
    | some cs => (d.toList.head?.map fun c => cs.toList.contains c).getD false
  let mut store := w.store
  let mut ren : List (Digest × Digest) := []
  let mut done : List Digest := []          -- keys (after re-keying) of the manifests already processed
  let mut changed := true
  while changed do
    changed := false
    for (d, o) in (storeKeys store).filterMap (fun d => (store.get d).map (d, ·)) do
      match o with
      | .man sch p cs =>
        if done.contains d then continue
        -- children that are directories must have been processed already
        let ready := cs.all fun c => !c.isDir || done.contains c.sum || (match store.get c.sum with
          | some (.man _ _ _) => false
          | _ => true)
        if ready then
          let o' : Obj ByteArray := .man (if selected d then .old else sch) p cs
          let d' := o'.digest theCtx
          if d' != d then
            -- replace the object and re-point parents
            store := (store.filter (·.1 != d)).map fun (k, v) =>
              match v with
              | .man s p2 cs2 => (k, .man s p2 (cs2.map fun c => if c.sum == d then { c with sum := d' } else c))
              | b => (k, b)
            store := store.put d' o'
            ren := (d, d') :: ren
          done := d' :: done
          changed := true
          break
      | _ => pure ()
  let fix := fun (a : Art) => match alookup ren a.sum with | some d' => { a with sum := d' } | none => a
  let idx := w.idx.map fun (sp, stg) => (sp, { stg with inputs := stg.inputs.map fix, outputs := stg.outputs.map fix })
  return ({ w with store := store, idx := idx }, ren)

/-! ## system-call traces (stream S2) -/

def pStr (art : Nat) : Sys.P → String
  | .ws rel => "W:" ++ hexOf (Path.intercalate rel)
  | .obj d => "O:" ++ d
  | .shard h => "H:" ++ h
  | .ctmp n => s!"T:c{art}.{n}"
  | .wtmp n => s!"T:w{art}.{n}"
  | .cacheRoot => "C"
  | .lock => "L"
  | .stageFile r => "S:" ++ hexOf r
  | .stageTmp r => "T:s" ++ hexOf r
  | .index => "I"
  | .indexTmp => "T:i"

def callStr (art : Nat) : Sys.Call ByteArray → String
  | .mkdir p => s!"mkdir {pStr art p}"
  | .createExcl p => s!"create_excl {pStr art p}"
  | .createTrunc p => s!"create_trunc {pStr art p}"
  | .writePart _ => ""
  | .write p _ => s!"write {pStr art p}"
  | .rename a b => s!"rename {pStr art a} {pStr art b}"
  | .chmod p m => s!"chmod {pStr art p} {String.ofList (Nat.toDigits 8 m)}"
  | .unlink p => s!"unlink {pStr art p}"
  | .symlink t p => s!"symlink {pStr art t} {pStr art p}"

/-- traced `dud commit`: the call sequence is the LIBRARY function `Sys.cmdCommitGoSegs` (DudModel/SysCmd.lean, the object of
`Props/C03cmdGo.lean`): lock, then per target the artifacts of the stages its traversal commits (plain inputs, then outputs) followed by
the stage files of those stages, unlock.  What remains here is presentation: temp files numbered per artifact, `mkdir` printed only for
directories that do not exist yet (MkdirAll), calls rendered as text. -/
def traceCommit (strat : Strat) (canRename : Bool) (targets : List Bytes) (w : World ByteArray) : Except Err (Array String) :=
  let c : Sys.CmdCfg ByteArray :=
    { cfg := theCfg, isEmp := fun b => b.size == 0, canRename := canRename, encStage := fun _ => ba [0x73] }
  match Sys.cmdCommitGoSegs c strat targets w with
  | .error e => .error e
  | .ok (_, segs) =>
    let existing : List Sys.P := .cacheRoot :: (storeKeys w.store).map (fun d => Sys.P.shard (Sys.shardOf d))
    let (out, _, _) := segs.foldl (fun (acc : Array String × Nat × List Sys.P) (seg : Bool × List (Sys.Call ByteArray)) =>
      let (out, k, dirs) := acc
      if seg.1 then
        let (lines, dirs) := seg.2.foldl (fun (p : Array String × List Sys.P) c =>
          match c with
          | .mkdir d => if p.2.contains d then p else (p.1.push (callStr k c), d :: p.2)
          | _ => let l := callStr k c; if l.isEmpty then p else (p.1.push l, p.2)) (out, dirs)
        (lines, k + 1, dirs)
      else
        (seg.2.foldl (fun o c => let l := callStr 0 c; if l.isEmpty then o else o.push l) out, k, dirs))
      (#["create_excl L"], 0, existing)
    .ok (out.push "unlink L")

/-- traced `dud checkout`: the call sequence is the library function `Sys.cmdCheckoutSegs` (DudModel/SysCheckout.lean, the object of
`Props/C06cmd.lean`); rendering only here. -/
def traceCheckout (strat : Strat) (single : Bool) (targets : List Bytes) (w : World ByteArray) : Except Err (Array String) :=
  let c : Sys.CmdCfg ByteArray :=
    { cfg := theCfg, isEmp := fun b => b.size == 0, canRename := true, encStage := fun _ => ba [0x73] }
  match Sys.cmdCheckoutSegs c strat single targets w with
  | .error e => .error e
  | .ok (_, segs) =>
    let (out, _) := segs.foldl (fun (acc : Array String × Nat) (seg : List (Sys.Call ByteArray)) =>
      (seg.foldl (fun o c => let l := callStr acc.2 c; if l.isEmpty then o else o.push l) acc.1, acc.2 + 1))
      (#["create_excl L"], 0)
    .ok (out.push "unlink L")

structure Sim where
  w : World ByteArray := {}
  step : Nat := 0
  dead : Bool := false        -- after a predicted error nothing more is predicted

def emit (out : IO.FS.Stream) (lines : Array String) : IO Unit :=
  out.putStr (String.join (lines.toList.map (· ++ "\n")))

def applyOp (toks : List String) (w : World ByteArray) : Except Err (World ByteArray) × Array String :=
  let hx := fun (l : List String) => l.map unhex
  match toks with
  | "commit" :: s :: ts => (cmdCommit theCfg (strat s) (hx ts) w, #[])
  | "checkout" :: s :: single :: ts => (cmdCheckout theCfg (strat s) (single == "1") (hx ts) w, #[])
  | "status" :: ts => (cmdStatus theCfg (hx ts) w, #[])
  | "graph" :: ts =>
    -- `dud graph`: same traversal as status, no effect on the project
    (match cmdStatus theCfg (hx ts) w with
     | .ok _ => .ok w
     | .error e => .error e, #[])
  | "run" :: single :: ts => (cmdRun theCfg execCmd (single == "1") (hx ts) w, #[])
  | "push" :: single :: ts => (cmdPush theCfg (single == "1") (hx ts) w, #[])
  | "fetch" :: single :: ts => (cmdFetch theCfg (single == "1") (hx ts) w, #[])
  | "pull" :: st :: single :: ts =>
    -- `dud pull`: fetch, then checkout, with the same arguments
    (match cmdFetch theCfg (single == "1") (hx ts) w with
     | .error e => .error e
     | .ok w1 => cmdCheckout theCfg (strat st) (single == "1") (hx ts) w1, #[])
  | ["rmindex"] => (.ok { w with idx := [] }, #[])
  | ["write", p, c] =>
    let comps := Path.comps (unhex p)
    (match setPath (delPath w.ws comps) comps (.file (parseContent c)) with
     | some ws => .ok { w with ws := ws } | none => .error .other, #[])
  | ["rm", p] => (.ok { w with ws := delPath w.ws (Path.comps (unhex p)) }, #[])
  | ["mkdir", p] =>
    let comps := Path.comps (unhex p)
    (match setPath (delPath w.ws comps) comps (.dir []) with
     | some ws => .ok { w with ws := ws } | none => .error .other, #[])
  | ["fifo", p] =>
    let comps := Path.comps (unhex p)
    (match setPath (delPath w.ws comps) comps .other with
     | some ws => .ok { w with ws := ws } | none => .error .other, #[])
  | ["flink", p, live] =>
    let comps := Path.comps (unhex p)
    (match setPath (delPath w.ws comps) comps (.link (.foreign (live == "1"))) with
     | some ws => .ok { w with ws := ws } | none => .error .other, #[])
  | ["uncopy", p] =>
    -- replace a link into the cache by a regular copy of its target
    let comps := Path.comps (unhex p)
    (match getPath w.ws comps with
     | some (.link (.obj d)) => (match w.store.get d with
        | some o => (match setPath w.ws comps (.file (o.bytes theCtx)) with
          | some ws => .ok { w with ws := ws } | none => .error .other)
        | none => .error .other)
     | some (.file _) => .ok w          -- already a regular file: nothing to do
     | _ => .error .other, #[])
  | ["relink", p, n] =>
    -- point the entry at the n-th object of the cache (sorted), as a link
    let comps := Path.comps (unhex p)
    let objs := sortedObjs w
    (match objs[n.toNat! % (max objs.length 1)]? with
     | some (d, _) => (match setPath (delPath w.ws comps) comps (.link (.obj d)) with
        | some ws => (.ok { w with ws := ws }, #[s!"x {d}"]) | none => (.error .other, #[]))
     | none => (.error .other, #[]))
  | ["corrupt", n, c] =>
    -- replace the bytes of an object (`<k>`: k-th file object, `m<k>`: k-th manifest, `p<path>`: the object of that file)
    (match pickObj w n true with
     | some d => (.ok { w with store := w.store.put d (.blob (parseContent c)) }, #[s!"x {d}"])
     | none => (.error .other, #[]))
  | ["rmobj", n] =>
    (match pickObj w n false with
     | some d => (.ok { w with store := w.store.filter (·.1 != d) }, #[s!"x {d}"])
     | none => (.error .other, #[]))
  | ["mv", src, dst] =>
    -- rename a workspace entry as it is (a link stays a link)
    let cs := Path.comps (unhex src)
    let cd := Path.comps (unhex dst)
    (match getPath w.ws cs with
     | some n => (match setPath (delPath w.ws cs) cd n with
        | some ws => (.ok { w with ws := ws }, #[]) | none => (.error .other, #[]))
     | none => (.error .other, #[]))
  | ["setcmd", sp, cmd] =>
    (match alookup w.idx (unhex sp) with
     | some stg => .ok { w with idx := setStage w.idx (unhex sp) { stg with cmd := unhex cmd } }
     | none => .error .unknownStage, #[])
  | ["staletmp", _] => (.ok w, #[])      -- a leftover temp file next to a stage file: not part of the modelled project
  | ["setskip", sp, ap] =>
    -- the user edits a stage file: the output `ap` becomes skip-cache (checksum and the rest stay)
    (match alookup w.idx (unhex sp) with
     | some stg =>
       let stg' : Stage := { stg with outputs := stg.outputs.map (fun a => if a.path == unhex ap then { a with skip := true } else a) }
       .ok { w with idx := setStage w.idx (unhex sp) stg' }
     | none => .error .unknownStage, #[])
  | "order" :: dir :: names =>
    -- put the entries of a directory into the given (real readdir) order
    let comps := Path.comps (unhex dir)
    (match getPath w.ws comps with
     | some (.dir es) =>
       let want := names.map unhex
       let known := want.filterMap (fun nm => (alookup es nm).map (fun n => (nm, n)))
       let rest := es.filter (fun e => !want.contains e.1)
       (match setPath w.ws comps (.dir (known ++ rest)) with
        | some ws => .ok { w with ws := ws } | none => .error .other)
     | _ => .ok w, #[])
  | ["moveproj", mode] =>
    -- links are relative: with a cache outside the project, moving it to another depth breaks them
    if mode == "rel" then (.ok w, #[]) else
    let rec dangle : Nat → Node ByteArray → Node ByteArray
      | 0, n => n
      | _, .link (.obj _) => .link (.foreign false)
      | f+1, .dir es => .dir (es.map fun (nm, n) => (nm, dangle f n))
      | _, n => n
    (.ok { w with ws := dangle 400 w.ws }, #[])
  | ["rmcachedir"] => (if w.store.isEmpty then .ok w else .error .other, #[])
  | ["movecache"] =>
    -- the cache directory is moved and re-configured: every link into it dangles, the objects are all still there
    let rec dangle2 : Nat → Node ByteArray → Node ByteArray
      | 0, n => n
      | _, .link (.obj _) => .link (.foreign false)
      | f+1, .dir es => .dir (es.map fun (nm, n) => (nm, dangle2 f n))
      | _, n => n
    (.ok { w with ws := dangle2 400 w.ws }, #[])
  | ["wipecache"] => (.ok { w with store := [] }, #[])
  | "clone" :: keep =>
    let ws := keep.foldl (fun (ws : Node ByteArray) d => (setPath ws (Path.comps (unhex d)) (.dir [])).getD ws) (.dir [])
    (.ok { w with ws := ws }, #[])
  | ["oldschema"] =>
    let (w', ren) := toOldSchema w none
    (.ok w', (ren.map fun (a, b) => s!"x {a} {b}").toArray)
  | ["oldschema", sel] =>
    let (w', ren) := toOldSchema w (some sel)
    (.ok w', (ren.map fun (a, b) => s!"x {a} {b}").toArray)
  | _ => (.error .invalid, #[])

partial def simLoop (inp out : IO.FS.Stream) (sim : Sim) : IO Unit := do
  let line ← inp.getLine
  if line.isEmpty then return ()
  let toks := (line.trimAscii.toString.splitOn " ").filter (· != "")
  match toks with
  | "case" :: id :: _ =>
    out.putStrLn s!"case {id}"
    simLoop inp out {}
  | ["file", p, c] =>
    let comps := Path.comps (unhex p)
    let ws := (setPath sim.w.ws comps (.file (parseContent c))).getD sim.w.ws
    simLoop inp out { sim with w := { sim.w with ws := ws } }
  | ["dir", p] =>
    let ws := (setPath sim.w.ws (Path.comps (unhex p)) (.dir [])).getD sim.w.ws
    simLoop inp out { sim with w := { sim.w with ws := ws } }
  | ["fifo", p] =>
    let ws := (setPath sim.w.ws (Path.comps (unhex p)) .other).getD sim.w.ws
    simLoop inp out { sim with w := { sim.w with ws := ws } }
  | ["flink", p, live] =>
    let ws := (setPath sim.w.ws (Path.comps (unhex p)) (.link (.foreign (live == "1")))).getD sim.w.ws
    simLoop inp out { sim with w := { sim.w with ws := ws } }
  | "stage" :: sp :: rest =>
    simLoop inp out { sim with w := { sim.w with idx := insertStage sim.w.idx (unhex sp) (parseStage rest) } }
  | "op" :: rest =>
    if sim.dead then
      out.putStrLn s!"step {sim.step} dead"
      simLoop inp out { sim with step := sim.step + 1 }
    else
      let (r, extra) := applyOp rest sim.w
      match r with
      | .error e =>
        out.putStrLn s!"step {sim.step} err:{e}"
        emit out extra
        out.putStrLn "endstep"
        simLoop inp out { sim with step := sim.step + 1, dead := true }
      | .ok w' =>
        out.putStrLn s!"step {sim.step} ok"
        emit out extra
        emit out (dumpWorld w')
        emit out (dumpStatus w')
        if !w'.log.isEmpty || (rest.head? == some "run") then
          out.putStrLn ("log" ++ String.join (w'.log.map fun s => " " ++ hexOf s))
        out.putStrLn "endstep"
        simLoop inp out { sim with w := { w' with stat := [], log := [] }, step := sim.step + 1 }
  | "top" :: "commit" :: st :: cr :: ts =>
    (match traceCommit (strat st) (cr == "1") (ts.map unhex) sim.w with
     | .ok lines => do
        out.putStrLn "trace ok"
        emit out lines
     | .error e => out.putStrLn s!"trace err:{e}")
    out.putStrLn "endtrace"
    simLoop inp out sim
  | "top" :: "checkout" :: st :: single :: ts =>
    (match traceCheckout (strat st) (single == "1") (ts.map unhex) sim.w with
     | .ok lines => do
        out.putStrLn "trace ok"
        emit out lines
     | .error e => out.putStrLn s!"trace err:{e}")
    out.putStrLn "endtrace"
    simLoop inp out sim
  | ["end"] =>
    out.putStrLn "end"
    out.flush
    simLoop inp out {}
  | _ =>
    if !toks.isEmpty then out.putStrLn s!"bad-line {line.trimAscii.toString}"
    simLoop inp out sim

/-! ## ownership scenarios (stream S8) -/

def parseOwnerStage (part : String) : Option (Bytes × Stage) :=
  match (part.trimAscii.toString.splitOn " ").filter (· != "") with
  | [] => none
  | sp :: arts =>
    let stg := arts.foldl (fun (stg : Stage) t =>
      match t.splitOn ":" with
      | [io, p, fl] =>
        let a : Art := { path := unhex p, isDir := fl.contains 'd', noRec := fl.contains 'r', skip := fl.contains 's' || io == "i" }
        if io == "o" then { stg with outputs := stg.outputs ++ [a] } else { stg with inputs := stg.inputs ++ [a] }
      | _ => stg) {}
    some (unhex sp, stg)

def ownerVerdict (line : String) : String :=
  let wa := Dud.Facts.ownerWalkAccumulates
  let rev := Dud.Facts.addStageChecksReverse
  let stages := (line.splitOn "|").filterMap parseOwnerStage
  let rec go (k : Nat) (idx : Index) : List (Bytes × Stage) → String × String × Option Index
    | [] => ("ok", "ok", some idx)
    | (sp, stg) :: r =>
      if !stg.validate wa sp then (toString k, "ok", none)
      else match addStage wa rev idx sp stg with
        | .error e => ("ok", s!"{k}:{e}", none)
        | .ok idx' => go (k + 1) idx' r
  let (v, a, res) := go 0 [] stages
  let r := match res with
    | none => "na"
    | some idx =>
      let sorted := idx.toArray.qsort (fun x y => decide (x.1 < y.1)) |>.toList
      match loadIndex wa rev sorted [] with
      | .ok _ => "ok"
      | .error _ => "err"
  s!"v={v} a={a} r={r}"

partial def ownerLoop (inp out : IO.FS.Stream) : IO Unit := do
  let line ← inp.getLine
  if line.isEmpty then return ()
  let l := line.trimAscii.toString
  if !l.isEmpty then out.putStrLn (ownerVerdict l)
  ownerLoop inp out

/-! ## checksum reader (stream S7), path algebra (S6), stage definitions -/

def blakeHasher : Hasher.HasherSpec Bytes :=
  { reset := fun _ => [], write := fun s c => s ++ c, sum := fun s => (Blake3T.hash (ba s)).toList }

def hexBytes (b : Bytes) : String := (hexOf b)

/-- split `data` into the scripted chunk sizes; what the script does not cover is one last read -/
def scriptChunks (data : Bytes) : List Nat → List Bytes
  | [] => if data.isEmpty then [] else [data]
  | n :: r => data.take n :: scriptChunks (data.drop n) r

partial def sumLoop (inp out : IO.FS.Stream) (pool : Bytes) : IO Unit := do
  let line ← inp.getLine
  if line.isEmpty then return ()
  match (line.trimAscii.toString.splitOn " ").filter (· != "") with
  | bufS :: dataS :: rest =>
    let buf := if bufS.toNat! == 0 then 65536 else bufS.toNat!
    let data : Bytes := if dataS.startsWith "g:" then (parseContent dataS).toList else unhex dataS
    let chunkSizes := match rest with
      | c :: _ => if c == "-" then [] else (c.splitOn ",").map String.toNat!
      | [] => []
    let fails := rest.length > 1 && rest[1]! == "err"
    -- a failing reader delivers only the scripted chunks
    let reads := if fails then (scriptChunks data chunkSizes).take chunkSizes.length else scriptChunks data chunkSizes
    let st := Hasher.copyLoop blakeHasher (Hasher.readResults buf reads)
      (if Dud.Facts.hasherResetBeforeCopy then blakeHasher.reset pool else pool)
    if fails then out.putStrLn "ERR"
    else out.putStrLn (Blake3.toHex (ba (blakeHasher.sum st)))
    sumLoop inp out st
  | _ => sumLoop inp out pool

partial def pathLoop (inp out : IO.FS.Stream) : IO Unit := do
  let line ← inp.getLine
  if line.isEmpty then return ()
  let l := if line.endsWith "\n" then (line.dropEnd 1).toString else line
  match l.splitOn "\t" with
  | ["clean", a] => out.putStrLn (hexOf (Path.clean (unhex a)))
  | ["dir", a] => out.putStrLn (hexOf (Path.dir (unhex a)))
  | ["join", a, b] => out.putStrLn (hexOf (Path.join [unhex a, unhex b]))
  | ["rel", a, b] => out.putStrLn (match Path.rel (unhex a) (unhex b) with | some r => hexOf r | none => "ERR")
  | ["absrel", a, b] => out.putStrLn (match Path.rel (unhex a) (Path.clean (unhex b)) with | some r => hexOf r | none => "ERR")
  | ["rebase", r, c, a] =>
    -- `pathAbsThenRel(root, arg)` in a process whose working directory is `c` (theorems: Props/C01path.lean)
    out.putStrLn (match Dud.C01path.pathAbsThenRel (unhex r) (unhex c) (unhex a) with | some x => hexOf x | none => "ERR")
  | _ => out.putStrLn "bad-op"
  pathLoop inp out

/-- `cmd=<hex> wd=<hex> (i|o):<hexpath>:<flags>:<hexsum>…` -> definition checksum of the normal form -/
partial def stageDefLoop (inp out : IO.FS.Stream) : IO Unit := do
  let line ← inp.getLine
  if line.isEmpty then return ()
  let toks := (line.trimAscii.toString.splitOn " ").filter (· != "")
  if !toks.isEmpty then
    let stg := toks.foldl (fun (stg : Stage) t =>
      if t.startsWith "cmd=" then { stg with cmd := unhex (t.drop 4).toString }
      else if t.startsWith "wd=" then { stg with wd := unhex (t.drop 3).toString }
      else match t.splitOn ":" with
        | io :: p :: fl :: _ =>
          let a : Art := { path := unhex p, isDir := fl.contains 'd', noRec := fl.contains 'r', skip := fl.contains 's' || io == "i" }
          if io == "i" then { stg with inputs := insertArt a stg.inputs } else if io == "o" then { stg with outputs := insertArt a stg.outputs } else stg
        | _ => stg) {}
    out.putStrLn (H (ba stg.defBytes))
  stageDefLoop inp out

/-- `<B> <hexA> <hexB>` -> the block-compare loop of SameContents with buffer size B -/
partial def sameLoop (inp out : IO.FS.Stream) : IO Unit := do
  let line ← inp.getLine
  if line.isEmpty then return ()
  match (line.trimAscii.toString.splitOn " ").filter (· != "") with
  | [b, x, y] => out.putStrLn (if Same.sameContents b.toNat! (unhex x) (unhex y) then "1" else "0")
  | _ => pure ()
  sameLoop inp out

/-- `<usesPrepare> <cwdIsRoot> <bodyOk> <preLocked>` -> `exit=<0|1> lock=<0|1>` (stream S4) -/
partial def lockLoop (inp out : IO.FS.Stream) : IO Unit := do
  let line ← inp.getLine
  if line.isEmpty then return ()
  match (line.trimAscii.toString.splitOn " ").filter (· != "") with
  | [up, cr, bo, pl] =>
    let root := ["p"]
    let cwd := if cr == "1" then root else root ++ ["sub", "dir"]
    let (ok, left) := Lock.runCommand (Lock.cmdChdirs (up == "1")) root cwd (bo == "1") (pl == "1")
    out.putStrLn s!"exit={if ok then 0 else 1} lock={if left then 1 else 0}"
  | _ => pure ()
  lockLoop inp out

partial def b3Loop (inp out : IO.FS.Stream) (hexMode : Bool) : IO Unit := do
  let line ← inp.getLine
  if line.isEmpty then return ()
  let l := line.trimAscii.toString
  if hexMode then
    out.putStrLn (H (ba (unhex l)))
  else
    try
      let b ← IO.FS.readBinFile (String.fromUTF8! (ba (unhex l)))
      out.putStrLn (H b)
    catch _ => out.putStrLn "ERR"
  out.flush
  b3Loop inp out hexMode

def main (args : List String) : IO UInt32 := do
  let inp ← IO.getStdin
  let out ← IO.getStdout
  match args with
  | ["sim"] => simLoop inp out {}; return 0
  | ["b3"] => b3Loop inp out false; return 0
  | ["owner"] => ownerLoop inp out; return 0
  | ["sum"] => sumLoop inp out []; return 0
  | ["lock"] => lockLoop inp out; return 0
  | ["path"] => pathLoop inp out; return 0
  | ["stagedef"] => stageDefLoop inp out; return 0
  | ["same"] => sameLoop inp out; return 0
  | ["b3hex"] => b3Loop inp out true; return 0
  | _ =>
    IO.eprintln "usage: dudmodel sim|b3|b3hex"
    return 2
