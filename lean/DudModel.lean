import DudModel.Basic
import DudModel.Blake3
import DudModel.Model
import DudModel.Path
import DudModel.GoJson
import DudModel.Stage
import DudModel.World
