"""C12 — one dud at a time per project, and the lock never outlives the command."""
import os, random, shutil, subprocess, tempfile, time, json
import vlib
from s1 import ROOT_WARNING

PROP = "C12"


def mkproject(dud, base, name):
    root = os.path.join(base, name)
    os.makedirs(os.path.join(root, "sub", "dir"))
    env = dict(os.environ, XDG_CONFIG_HOME=os.path.join(base, "xdg"), HOME=base, LC_ALL="C",
               PATH=os.path.join(vlib.VERIF, "tools") + ":" + os.environ["PATH"])
    subprocess.run([dud, "init"], cwd=root, env=env, stdout=subprocess.DEVNULL, stderr=subprocess.DEVNULL)
    os.makedirs(os.path.join(base, "remote-" + name), exist_ok=True)
    with open(os.path.join(root, ".dud", "config.yaml"), "a") as f:
        f.write("remote: %s\n" % os.path.join(base, "remote-" + name))
    return root, env


# critical section witness: an atomic mkdir sentinel; a second holder cannot create it
CRIT = ("mkdir SENTINEL 2>/dev/null || echo collision >> COLLISIONS; echo in >> ENTERED; sleep 0.15; "
        "rmdir SENTINEL 2>/dev/null; echo x > out.txt")


def concurrent_round(dud, base, n, rnd, rng):
    root, env = mkproject(dud, base, "conc-%d-%d" % (n, rnd))
    with open(os.path.join(root, "s.yaml"), "w") as f:
        f.write("command: %s\noutputs:\n  out.txt: {}\n" % json.dumps(CRIT))
    subprocess.run([dud, "stage", "add", "s.yaml"], cwd=root, env=env, stdout=subprocess.DEVNULL, stderr=subprocess.DEVNULL)
    procs = []
    cwds = [root, os.path.join(root, "sub", "dir")]
    cmds = [["run"], ["run"], ["status"], ["commit"], ["checkout"], ["run", "s.yaml"]]
    t0 = time.time()
    for i in range(n):
        cmd = rng.choice(cmds)
        cwd = rng.choice(cwds)
        args = list(cmd)
        if args[-1] == "s.yaml":
            args[-1] = os.path.relpath(os.path.join(root, "s.yaml"), cwd)
        procs.append((args, subprocess.Popen([dud] + args, cwd=cwd, env=env, stdout=subprocess.PIPE, stderr=subprocess.PIPE), time.time()))
        time.sleep(rng.choice([0, 0, 0.002, 0.01, 0.05]))
    res = []
    for args, p, ts in procs:
        so, se = p.communicate(timeout=60)
        res.append((args, p.returncode, b"project lock file" in se, ts, time.time()))
    v = []
    if os.path.exists(os.path.join(root, "COLLISIONS")):
        v.append("two stage commands ran at the same time in one project (mutual exclusion broken)")
    if os.path.exists(os.path.join(root, ".dud", "lock")):
        v.append("after all %d invocations exited .dud/lock still exists" % n)
    refused = [r for r in res if r[2]]
    ok = [r for r in res if r[1] == 0]
    for args, rc, lockerr, a, b in res:
        if lockerr and rc == 0:
            v.append("`dud %s` was refused by the lock but exited 0" % " ".join(args))
    overlapped = len(refused) >= 1
    return v, overlapped, dict(n=n, refused=len(refused), succeeded=len(ok), results=[(" ".join(r[0]), r[1], r[2]) for r in res])


SUBCOMMANDS = [
    # (args, usesPrepare, expected_ok_when_healthy)
    (["status"], True), (["commit"], True), (["checkout"], True), (["run"], True), (["graph"], True), (["push"], True),
    (["fetch"], True), (["pull"], True), (["stage", "add", "t.yaml"], True), (["stage", "remove", "s.yaml"], True),
    (["config", "get", "cache"], False), (["config", "set", "remote", "/tmp/verif-nowhere"], False),
]


def lock_windows(dud, base, R):
    """every file-system mutating call a lock-taking command issues inside the project or its cache happens while `.dud/lock`
    exists (ptrace: tools/sysstep) — in particular both halves of `dud pull` (fetch, then checkout in the same process)"""
    stepper = vlib.build_sysstep()
    viol = []
    k = 0
    for args, prep in ((["commit"], "fresh"), (["checkout"], "wiped"), (["checkout", "--copy"], "wiped"), (["pull"], "wiped-cache"),
                       (["fetch"], "wiped-cache"), (["push"], "committed"), (["run"], "fresh"), (["stage", "add", "t.yaml"], "committed"),
                       (["pull", "s.yaml"], "wiped-cache")):
        for where in ("root", "sub"):
            k += 1
            root, env = mkproject(dud, base, "w%d" % k)
            os.makedirs(os.path.join(root, "data", "deep"))
            for j in range(5):
                open(os.path.join(root, "data", "f%d.txt" % j), "w").write("data %d" % j)
            open(os.path.join(root, "data", "deep", "g.txt"), "w").write("g")
            open(os.path.join(root, "s.yaml"), "w").write("command: echo hi > data/f0.txt\noutputs:\n  data:\n    is-dir: true\n")
            open(os.path.join(root, "t.yaml"), "w").write("outputs:\n  other.txt: {}\n")
            open(os.path.join(root, "other.txt"), "w").write("o")
            q = dict(cwd=root, env=env, stdout=subprocess.DEVNULL, stderr=subprocess.DEVNULL)
            subprocess.run([dud, "stage", "add", "s.yaml"], **q)
            if prep != "fresh":
                subprocess.run([dud, "commit"], **q)
                subprocess.run([dud, "push"], **q)
            if prep.startswith("wiped"):
                shutil.rmtree(os.path.join(root, "data"))
            if prep == "wiped-cache":
                cache = os.path.join(root, ".dud", "cache")
                for hh in os.listdir(cache):
                    shutil.rmtree(os.path.join(cache, hh))
            cwd = root if where == "root" else os.path.join(root, "sub", "dir")
            a = [os.path.relpath(os.path.join(root, x), cwd) if x.endswith(".yaml") else x for x in args]
            log = os.path.join(base, "lockwin-%d.log" % k)
            p = subprocess.run([stepper, "-o", log, "--", dud] + a, cwd=cwd, env=env, stdout=subprocess.PIPE, stderr=subprocess.PIPE, timeout=120)
            lock = os.path.realpath(os.path.join(root, ".dud", "lock"))
            rootr = os.path.realpath(root)
            held = False
            outside = []
            for line in open(log, errors="replace").read().splitlines():
                parts = line.split("\t")
                if len(parts) < 3 or not parts[0].isdigit():
                    continue
                name, p1 = parts[1], parts[2]
                p2 = parts[3] if len(parts) > 3 else ""
                full = p1 if p1.startswith("/") else os.path.normpath(os.path.join(rootr, p1))
                if os.path.realpath(os.path.dirname(full)) + "/" + os.path.basename(full) == lock or full.endswith("/.dud/lock"):
                    if name in ("create_excl", "open_w", "create_trunc"):
                        held = True
                    elif name == "unlink":
                        held = False
                    continue
                touched = [x for x in (full, p2 if p2.startswith("/") else (os.path.normpath(os.path.join(rootr, p2)) if p2 and name in ("rename", "symlink", "link") else ""))
                           if x and (x == rootr or x.startswith(rootr + "/"))]
                if touched and not held:
                    outside.append("%s %s" % (name, os.path.relpath(touched[0], rootr)))
            R.count("lock-window-%s-%s" % (" ".join(args), where), True)
            if outside:
                viol.append(("unlocked-mutation", "`dud %s` from %s (exit %d) issued %d mutating call(s) inside the project while .dud/lock did not exist, e.g. %s "
                             "— another dud can get past the lock at that moment" % (" ".join(a), where, p.returncode, len(outside), outside[:3])))
    return viol


def bool_flags(dud, env, sub):
    """the boolean flags `dud <sub> --help` advertises (own and global), whatever they are in this tree"""
    import re
    p = subprocess.run([dud] + sub + ["--help"], env=env, stdout=subprocess.PIPE, stderr=subprocess.STDOUT)
    out = []
    for line in ROOT_WARNING.sub(b"", p.stdout).decode(errors="replace").splitlines():
        m = re.match(r"^\s+(?:-\w, )?(--[a-z][-a-z0-9]*)(\s+\S+)?\s{2,}", line)
        if m and m.group(1) != "--help" and not (m.group(2) or "").strip():
            out.append(m.group(1))
    return sorted(set(out))


def flag_sweep(dud, base, R):
    """every lock-taking subcommand with every boolean flag its help text lists, in an up-to-date and in a modified project, from the root
    and from a sub-directory: whatever the flag makes the command report or return, the project is unlocked afterwards"""
    viol = []
    k = 0
    for sub in (["status"], ["commit"], ["checkout"], ["run"], ["graph"], ["push"], ["fetch"], ["pull"]):
        root0, env = mkproject(dud, base, "fl-help-%s" % sub[0])
        flags = bool_flags(dud, env, sub)
        for fl in flags:
            for state in ("clean", "modified"):
                k += 1
                root, env = mkproject(dud, base, "fl%d" % k)
                open(os.path.join(root, "s.yaml"), "w").write("command: echo hi > out.txt\ninputs:\n  in.txt: {}\noutputs:\n  out.txt: {}\n")
                open(os.path.join(root, "in.txt"), "w").write("in")
                q = dict(cwd=root, env=env, stdout=subprocess.DEVNULL, stderr=subprocess.DEVNULL)
                for c in (["stage", "add", "s.yaml"], ["run"], ["commit"], ["push"]):
                    subprocess.run([dud] + c, **q)
                if state == "modified":
                    os.unlink(os.path.join(root, "out.txt"))
                    open(os.path.join(root, "out.txt"), "w").write("edited by hand")
                    open(os.path.join(root, "in.txt"), "w").write("changed input")
                cwd = root if k % 2 else os.path.join(root, "sub", "dir")
                for d_ in (root, cwd):
                    for nm in ("dud.pprof", "dud.trace"):
                        pass
                p = subprocess.run([dud] + sub + [fl], cwd=cwd, env=env, stdout=subprocess.PIPE, stderr=subprocess.PIPE, timeout=60)
                left = os.path.exists(os.path.join(root, ".dud", "lock"))
                R.count("flag-%s-%s-%s" % (sub[0], fl, state), True)
                if left:
                    viol.append(("lock-left:flag", "`dud %s %s` in a %s project (from %s) exited %d and left .dud/lock behind: %s" % (
                        sub[0], fl, state, "the root" if cwd == root else "a sub-directory", p.returncode, p.stderr.decode(errors="replace")[-120:])))
    return viol


def nested_invocation(dud, base, R):
    """a stage command that itself starts dud in the same project: the running `dud run` holds the lock, so the nested dud is one of
    "the others": it exits non-zero without changing anything and without removing the holder's lock"""
    viol = []
    for k, inner in enumerate((["status"], ["commit"], ["run", "b.yaml"], ["checkout"])):
        root, env = mkproject(dud, base, "nest%d" % k)
        cmd = "%s %s > NESTED_OUT 2>&1; echo $? > NESTED_RC; test -e .dud/lock && echo held > LOCK_SEEN; echo x > out.txt" % (dud, " ".join(inner))
        open(os.path.join(root, "a.yaml"), "w").write("command: %s\noutputs:\n  out.txt: {}\n" % json.dumps(cmd))
        open(os.path.join(root, "b.yaml"), "w").write("command: echo b > b.txt\noutputs:\n  b.txt: {}\n")
        q = dict(cwd=root, env=env, stdout=subprocess.DEVNULL, stderr=subprocess.DEVNULL)
        subprocess.run([dud, "stage", "add", "a.yaml", "b.yaml"], **q)
        p = subprocess.run([dud, "run", "a.yaml"], cwd=root, env=env, stdout=subprocess.PIPE, stderr=subprocess.PIPE, timeout=60)
        R.count("nested-%s" % inner[0], True)
        rcf = os.path.join(root, "NESTED_RC")
        rc = open(rcf).read().strip() if os.path.exists(rcf) else "?"
        if rc == "0":
            viol.append(("nested-passed", "a `dud %s` started by the stage command of a running `dud run` in the same project exited 0: it got past the "
                         "lock its parent holds (output: %s)" % (" ".join(inner), open(os.path.join(root, "NESTED_OUT"), errors="replace").read()[-160:])))
        if not os.path.exists(os.path.join(root, "LOCK_SEEN")) and rc != "?":
            viol.append(("holder-lock-removed", "after the refused nested `dud %s` the lock of the running `dud run` was gone" % " ".join(inner)))
        if os.path.exists(os.path.join(root, ".dud", "lock")):
            viol.append(("lock-left:nested", "`dud run` whose stage command started a nested dud left .dud/lock behind (exit %d)" % p.returncode))
        if inner[0] == "run" and os.path.exists(os.path.join(root, "b.txt")):
            viol.append(("nested-changed", "the refused nested `dud run b.yaml` executed stage b"))
    return viol


def matrix(dud, drv, base, R):
    """every subcommand x {root, nested dir} x {success, failure}: the lock must be gone afterwards"""
    prelock_n = [0]
    viol, diverged = [], []
    lines, obs, descr = [], [], []
    k = 0
    for args, uses_prepare in SUBCOMMANDS:
        for where in ("root", "sub"):
            for outcome in ("ok", "fail", "prelocked", "profile-unwritable", "trace-unwritable", "outside-target",
                            "blocked-by-file", "missing-output", "exit-126", "cache-dangling"):
                # failures for OTHER reasons than a broken index: a file in the way of checkout (EEXIST), a missing output at
                # commit (ENOENT), a stage command that cannot be executed
                if outcome == "blocked-by-file" and args[0] not in ("checkout", "pull"):
                    continue
                if outcome == "missing-output" and args[0] not in ("commit",):
                    continue
                if outcome == "exit-126" and args[0] not in ("run",):
                    continue
                if outcome == "cache-dangling" and args[0] not in ("commit", "fetch"):
                    continue
                if outcome.endswith("unwritable") and args[0] not in ("status", "commit", "run"):
                    continue
                if outcome == "outside-target" and not any(x.endswith(".yaml") for x in args):
                    continue
                k += 1
                root, env = mkproject(dud, base, "m%d" % k)
                with open(os.path.join(root, "s.yaml"), "w") as f:
                    f.write("command: echo hi > out.txt\noutputs:\n  out.txt: {}\n")
                with open(os.path.join(root, "t.yaml"), "w") as f:
                    f.write("outputs:\n  other.txt: {}\n")
                open(os.path.join(root, "other.txt"), "w").write("o")
                subprocess.run([dud, "stage", "add", "s.yaml"], cwd=root, env=env, stdout=subprocess.DEVNULL, stderr=subprocess.DEVNULL)
                subprocess.run([dud, "run"], cwd=root, env=env, stdout=subprocess.DEVNULL, stderr=subprocess.DEVNULL)
                subprocess.run([dud, "commit"], cwd=root, env=env, stdout=subprocess.DEVNULL, stderr=subprocess.DEVNULL)
                subprocess.run([dud, "push"], cwd=root, env=env, stdout=subprocess.DEVNULL, stderr=subprocess.DEVNULL)
                cwd = root if where == "root" else os.path.join(root, "sub", "dir")
                a = [os.path.relpath(os.path.join(root, x), cwd) if x.endswith(".yaml") else x for x in args]
                if outcome == "outside-target":
                    # a stage argument that resolves outside the project (relative from a nested directory, or absolute)
                    outside = os.path.join(os.path.dirname(root), "elsewhere-%d.yaml" % k)
                    open(outside, "w").write("outputs:\n  x.txt: {}\n")
                    a = [(os.path.relpath(outside, cwd) if k % 2 else outside) if x.endswith(".yaml") else x for x in a]
                if outcome == "blocked-by-file":
                    os.unlink(os.path.join(root, "out.txt"))
                    open(os.path.join(root, "out.txt"), "w").write("something else in the way")
                    if args[0] == "checkout" and k % 2:
                        a = a + ["--copy"]
                if outcome == "missing-output":
                    os.unlink(os.path.join(root, "out.txt"))
                if outcome == "cache-dangling":
                    # the cache directory is a link to a disk that is not mounted: creating anything in it fails with EEXIST / ENOENT
                    shutil.rmtree(os.path.join(root, ".dud", "cache"))
                    os.symlink(os.path.join(base, "unmounted-disk-%d" % k, "cache"), os.path.join(root, ".dud", "cache"))
                    os.unlink(os.path.join(root, "out.txt"))
                    open(os.path.join(root, "out.txt"), "w").write("new content to commit")
                if outcome == "exit-126":
                    with open(os.path.join(root, "s.yaml"), "w") as f:
                        f.write("command: exit 126\noutputs:\n  out.txt: {}\n")
                if outcome == "fail":
                    # make the body fail: break the index (unknown stage file) — config commands do not read it
                    if args[0] == "config":
                        a = ["config", "get", "nonsense"] if args[1] == "get" else ["config", "set", "nonsense", "x"]
                    else:
                        with open(os.path.join(root, ".dud", "index"), "a") as f:
                            f.write("does-not-exist.yaml\n")
                if outcome == "prelocked":
                    # the holder may be a dud on another host sharing the directory: whatever the lock file contains
                    # (nothing, the PID of a process that no longer exists here, garbage) it is the holder's lock
                    dead = subprocess.Popen(["true"]); dead.wait()
                    prelock_n[0] += 1
                    with open(os.path.join(root, ".dud", "lock"), "w") as f:
                        f.write(["", "%d\n" % dead.pid, "%d" % dead.pid, "not-a-pid\n"][prelock_n[0] % 4])
                if outcome.endswith("unwritable"):
                    # the profile / trace output cannot be written (disk full): the command fails at the very end
                    flag = "--profile" if outcome.startswith("profile") else "--trace"
                    for d_ in (root, cwd):
                        target = os.path.join(d_, "dud.pprof" if flag == "--profile" else "dud.trace")
                        if not os.path.lexists(target):
                            os.symlink("/dev/full", target)
                    a = [flag] + a
                p = subprocess.run([dud] + a, cwd=cwd, env=env, stdout=subprocess.PIPE, stderr=subprocess.PIPE, timeout=60)
                left = os.path.exists(os.path.join(root, ".dud", "lock"))
                body_ok = outcome == "ok"
                if outcome == "outside-target" and p.returncode == 0:
                    body_ok = True
                arg_error = outcome == "fail" and args[0] == "config"      # cobra rejects the argument before any lock is taken
                R.count("matrix-%s-%s-%s" % (" ".join(args), where, outcome), where == "sub" or outcome != "ok")
                name = "`dud %s` from %s (%s)" % (" ".join(a), where, outcome)
                if outcome == "prelocked":
                    if p.returncode == 0:
                        viol.append(("refused-ok", "%s exited 0 although the project was locked" % name))
                    if not left:
                        viol.append(("holder-lock-removed", "%s removed a lock it did not take" % name))
                else:
                    if left:
                        viol.append(("lock-left:%s:%s" % (args[0], where), "%s exited %d and left .dud/lock behind: %s" % (
                            name, p.returncode, p.stderr.decode(errors="replace")[-120:])))
                    if body_ok and p.returncode != 0 and not left:
                        viol.append(("healthy-failed", "%s exited %d: %s" % (name, p.returncode, p.stderr.decode(errors="replace")[-160:])))
                if not arg_error and not outcome.endswith("unwritable") and outcome != "outside-target":
                    lines.append("%d %d %d %d" % (1 if uses_prepare else 0, 1 if where == "root" else 0, 1 if body_ok else 0, 1 if outcome == "prelocked" else 0))
                    obs.append("exit=%d lock=%d" % (0 if p.returncode == 0 else 1, 1 if left else 0))
                    descr.append(name)
    p = subprocess.run([drv, "lock"], input=("\n".join(lines) + "\n").encode(), stdout=subprocess.PIPE)
    model = p.stdout.decode().split("\n")[:-1]
    for d, o, m in zip(descr, obs, model):
        if o != m:
            diverged.append(dict(command=d, implementation=o, model=m))
        else:
            R.cov["traces_validated_against_impl"] += 1
    return viol, diverged


def main(tier, replay=None):
    R = vlib.Result(PROP, tier)
    R.cov["rule"] = ("S4: N in {2,4,8} (thorough: ..32) concurrent invocations with staggered starts from the root and a nested directory; the stage "
                     "command holds an atomic mkdir sentinel (a second holder is detected); every lock-taking subcommand x {root, nested directory} x "
                     "{success, failing body, project already locked}; oracle: no overlap, refused invocations exit non-zero and leave the holder's "
                     "lock, no lock after all exits; model: Lock.runCommand; non-trivial = at least two invocations overlapped / non-root or failing")
    R.cov["checker_cmd"] = "cd lean && lake build DudModel.Props.C12 && lake env lean <audit file: #print axioms of every theorem>"
    R.cov["trusted_base"] = vlib.TRUSTED_COMMON + ["open(O_CREAT|O_EXCL) is atomic on the local file system (kernel)"]
    dud = vlib.build_dud()
    drv = vlib.build_driver()
    rng = random.Random(vlib.seed() * 1000 + 12)
    base = tempfile.mkdtemp(prefix="c12.", dir=vlib.scratch())
    ns = [2, 4, 8] if tier == "quick" else [2, 4, 8, 16, 32]
    rounds = 4 if tier == "quick" else 40
    for n in ns:
        for rnd in range(rounds):
            v, overlapped, info = concurrent_round(dud, base, n, rnd, rng)
            R.count("conc-%d-%d" % (n, rnd), overlapped)
            if len(R.cov["samples"]) < 2:
                R.sample(info)
            if v:
                R.violation(dict(kind="property-violated-on-implementation", scenario="%d concurrent invocations" % n, violations=v, detail=info))
    viol, diverged = matrix(dud, drv, base, R)
    viol = viol + lock_windows(dud, base, R) + flag_sweep(dud, base, R) + nested_invocation(dud, base, R)
    unknown = []
    for tag, text in viol:
        kf = None
        for f in vlib.load_findings():
            if f.get("property") == PROP and f.get("matcher") == "config-from-subdirectory" and tag == "lock-left:config:sub":
                kf = f
        if kf:
            R.known_finding(kf["id"], kf["what"])
        else:
            unknown.append(text)
    if unknown:
        R.violation(dict(kind="property-violated-on-implementation", scenario="subcommand matrix", violations=unknown[:8]))
    elif diverged and not R.known:
        for d in diverged[:4]:
            R.violation(dict(kind="model-implementation-disagreement", stream="S4", **d), nofail=True)
    shutil.rmtree(base, ignore_errors=True)
    R.absorb_audit(vlib.lean_audit(PROP))
    if tier == "thorough":
        ok, log = vlib.leanchecker(["DudModel.Props.C12"])
        if not ok:
            R.violation(dict(kind="leanchecker", detail=log), nofail=True)
    return R.finish()
