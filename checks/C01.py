"""C01 — commit then checkout reproduces the tracked tree byte-for-byte."""
import random, json
import vlib, s1, gen, s1eval

PROP = "C01"


def make_cases(rng, tier, n):
    cases = []
    stats = {}
    for i in range(n):
        fam = rng.choice(["roundtrip", "roundtrip", "roundtrip", "pipeline", "unsafe"])
        cid = "%s-%d" % (fam, i)
        if fam == "unsafe":
            c = gen.basic_project(rng, cid, tier, classes=["ascii", "unsafe"], stats=stats, n_stages=1)
        else:
            c = gen.basic_project(rng, cid, tier, stats=stats)
        c["family"] = fam
        if i % 40 == 7 or (fam == "roundtrip" and rng.random() < 0.04):
            # "any tree": a chain of directories deeper than any worker pool (65 tokens), a file at the bottom and on the way
            dart0 = [a for a in s1eval.artifacts(c) if a[1] == "d"]
            if dart0:
                p = dart0[0][0]
                for lvl in range(rng.choice([66, 70, 90])):
                    p = p + b"/n"
                    c["init"].append(("dir", p))
                    if lvl % 16 == 3:
                        c["init"].append(("file", p + b"/w.txt", "g:%d:%d" % (lvl, lvl)))
                c["init"].append(("file", p + b"/bottom.bin", "g:5:65537"))
                c["timeout"] = 60
                stats["deep_chain"] = stats.get("deep_chain", 0) + 1
        if i % 15 == 11:
            # sub-directories (and files) named exactly like the field names of the manifest schemas, old and new
            dart1 = [a for a in s1eval.artifacts(c) if a[1] == "d"]
            if dart1:
                p0 = dart1[0][0]
                for nm in (b"Path", b"Checksum", b"IsDir", b"SkipCache", b"DisableRecursion", b"path", b"is-dir", b"Contents"):
                    if not any(e[1] == p0 + b"/" + nm for e in c["init"]):
                        c["init"].append(("dir", p0 + b"/" + nm))
                        c["init"].append(("file", p0 + b"/" + nm + b"/inner.txt", "g:%d:%d" % (rng.randrange(1000), rng.choice([0, 7, 300]))))
                stats["schema_field_dirs"] = stats.get("schema_field_dirs", 0) + 1
        if fam == "pipeline" and len(c["stages"]) >= 2:
            # later stages take an earlier stage's outputs (and a path inside a directory output) as inputs
            for k in range(1, len(c["stages"])):
                prev_out = c["stages"][k - 1][1]["out"]
                p, fl = rng.choice(prev_out)
                ins = c["stages"][k][1].setdefault("in", [])
                ins.append((p, "d" if "d" in fl else ""))
        commit_targets = []
        if fam == "pipeline" and len(c["stages"]) >= 2 and rng.random() < 0.6:
            commit_targets = [c["stages"][-1][0]]          # only the most downstream stage is named: upstream is committed recursively
        s_commit, s_checkout = rng.choice("lc"), rng.choice("lc")
        keep = [b"workdir", b"workdir/inner"] if c.get("cwd") else []
        variant = rng.choice(["clone", "clone", "rm", "move"])
        checkout_targets = []
        if not commit_targets and rng.random() < 0.35:
            # every stage named explicitly on the command line (argument paths are re-based on the project root)
            commit_targets = [sp for sp, st in c["stages"]]
            checkout_targets = list(commit_targets)
            stats["explicit_targets"] = stats.get("explicit_targets", 0) + 1
        ops = [("commit", s_commit, commit_targets)]
        if fam == "roundtrip" and rng.random() < 0.3:
            # a second generation of the tree: a tracked file is renamed over its sibling (after a link commit both are links
            # into the cache), sometimes a new file appears; the tree as it is then is committed and must come back
            sib = {}
            for e in c["init"]:
                if e[0] == "file":
                    sib.setdefault(e[1].rsplit(b"/", 1)[0] if b"/" in e[1] else b"", []).append(e[1])
            dirs_ = [d_ for d_, fs in sib.items() if len(fs) >= 2 and any(d_ == a[0] or d_.startswith(a[0] + b"/")
                                                                        for a in s1eval.artifacts(c) if a[1] == "d")]
            if dirs_:
                d_ = rng.choice(sorted(dirs_))
                a_, b_ = rng.sample(sorted(sib[d_]), 2)
                ops.append(("mv", a_, b_))
                if rng.random() < 0.4:
                    ops.append(("write", d_ + b"/second-gen.bin", "g:%d:%d" % (rng.randrange(1000), rng.choice([0, 7, 65537]))))
                ops.append(("commit", rng.choice("lc"), commit_targets))
                stats["second_generation"] = stats.get("second_generation", 0) + 1
        if rng.random() < 0.5:
            ops.append(("status", []))
        if variant == "clone":
            ops.append(("clone", keep))
        elif variant == "move":
            ops += [("moveproj", "rel" if c["cache"] in ("rel", "sym", "symx") else "abs"), ("clone", keep)]
        else:
            for p, fl, sp in s1eval.artifacts(c):
                if "s" not in fl:
                    ops.append(("rm", p))
        ops.append(("checkout", s_checkout, False, checkout_targets))
        ops.append(("status", []))
        c["ops"] = ops
        c["variant"] = variant
        cases.append(c)
    return cases, stats


def has_unsafe(case):
    for e in case["init"]:
        for comp in e[1].split(b"/"):
            if not gen_safe(comp):
                return True
    return False


def gen_safe(name):
    """the decidable SafeName predicate (mirrors DudModel.Codec.safeName; validated by stream S5)"""
    try:
        s = name.decode("utf-8")
    except UnicodeDecodeError:
        return False
    for ch in s:
        o = ord(ch)
        if o == 0x7F or 0x80 <= o <= 0x9F or o in (0xFEFF, 0xFFFE, 0xFFFF) or 0xD800 <= o <= 0xDFFF:
            return False
    return True


def oracle(run):
    case = run["case"]
    v = []
    steps = run["steps"]
    init = run["initial"]
    if not steps:
        return [("harness", "no steps")]
    # the LAST commit and the workspace it saw (second-generation cases commit twice)
    ci = max(i for i, st in enumerate(steps) if st["op"][0] == "commit")
    commit = steps[ci]
    for st in steps[:ci]:
        if st["op"][0] == "commit" and st["rc"] != 0:
            commit = st          # an earlier commit already failed
            ci = steps.index(st)
            break
    init = steps[ci - 1]["snap"] if ci > 0 else init
    unsafe = has_unsafe(case)
    if commit["rc"] != 0:
        if unsafe and any(not valid_utf8(e[1]) for e in case["init"]):
            return []          # commit may refuse names it cannot represent
        return [("commit-failed", "dud commit exited %d on a regular tree: %s" % (commit["rc"], commit["stderr"][-200:]))]
    # commit leaves the logical content unchanged
    a, b = s1eval.logical(init), s1eval.logical(commit["snap"])
    if a != b:
        v.append(("commit-changed-content", "logical workspace content changed by commit: %s" % diff_views(a, b)))
    final = None
    for st in steps:
        if st["op"][0] == "checkout":
            final = st
    if final is None:
        return v
    if final["rc"] != 0:
        v.append(("checkout-failed", "dud checkout exited %d: %s" % (final["rc"], final["stderr"][-200:])))
        return v
    for p, fl, sp in s1eval.artifacts(case):
        if "s" in fl:
            continue
        want = s1eval.logical(init, under=p, skip_dirs_top=("r" in fl))
        # the artifact was absent before the checkout in every variant: a non-recursive artifact comes back as
        # its top-level files and nothing else
        got = s1eval.logical(final["snap"], under=p)
        if want != got:
            v.append(("tree-differs", "artifact %s not reproduced: %s" % (p.decode(), diff_views(want, got))))
    return v


def valid_utf8(b):
    try:
        b.decode("utf-8")
        return True
    except UnicodeDecodeError:
        return False


def diff_views(a, b):
    out = []
    for p in sorted(set(a) | set(b)):
        if a.get(p) != b.get(p):
            out.append("%r: %s -> %s" % (p, a.get(p), b.get(p)))
    return "; ".join(out[:4])


def finding_of(run, tag, text):
    case = run["case"]
    for f in vlib.load_findings():
        if f.get("property") != PROP:
            continue
        m = f.get("matcher")
        if m == "entry-name-not-utf8" and any(not valid_utf8(e[1]) for e in case["init"]):
            return f["id"], f["what"]
        if m == "entry-name-unsafe-codepoint" and has_unsafe(case) and all(valid_utf8(e[1]) for e in case["init"]):
            return f["id"], f["what"]
    return None


def nontrivial(run):
    case = run["case"]
    files = sum(1 for e in case["init"] if e[0] == "file")
    nested = any(e[0] == "dir" and e[1].count(b"/") >= 1 for e in case["init"])
    return files >= 3 and nested


def main(tier, replay=None):
    R = vlib.Result(PROP, tier)
    R.cov["rule"] = ("S1 CLI histories: generated trees (name classes, sizes around 64 KiB, nesting) x artifact kinds x commit/checkout "
                     "strategy x cache placement (rel/abs/other device) x invocation directory x {clone, rm, moved project}; "
                     "non-trivial = at least 3 files and one nested directory; distinct by case id")
    R.cov["checker_cmd"] = "cd lean && lake build DudModel.Props.C01 && lake env lean <audit file with #print axioms>"
    R.cov["trusted_base"] = vlib.TRUSTED_COMMON + ["collision-freedom of BLAKE3 on the byte strings involved (hypothesis Good.inj)"]
    dud = vlib.build_dud()
    drv = vlib.build_driver()
    rng = random.Random(vlib.seed() * 1000 + 1)
    if replay:
        j = json.load(open(replay))
        cases = [s1eval.case_unjson(v["case"]) for v in j.get("violations", []) + j.get("unproved", []) if "case" in v]
        stats = {}
    else:
        n = 120 if tier == "quick" else 1500
        cases, stats = make_cases(rng, tier, n)
    runs, traces = s1.run_cases(dud, drv, cases)
    s1eval.evaluate(R, runs, oracle, finding_of, nontrivial)
    R.cov["distribution"] = stats
    R.cov["families"] = {f: sum(1 for c in cases if c.get("family") == f) for f in set(c.get("family") for c in cases)}
    for run in runs[:3]:
        R.sample(s1eval.describe(run["case"]))
    R.absorb_audit(vlib.lean_audit(PROP))
    if tier == "thorough":
        ok, log = vlib.leanchecker(["DudModel.Props.C01"])
        R.notes["leanchecker"] = "ok" if ok else log
        if not ok:
            R.violation(dict(kind="leanchecker", detail=log), nofail=True)
    return R.finish()
