"""C01 — commit then checkout reproduces the tracked tree byte-for-byte."""
import random, json, os
import vlib, s1, gen, s1eval

PROP = "C01"


def make_cases(rng, tier, n):
    cases = []
    stats = {}
    for i in range(n):
        fam = rng.choice(["roundtrip", "roundtrip", "roundtrip", "pipeline", "unsafe"])
        cid = "%s-%d" % (fam, i)
        if fam == "unsafe":
            c = gen.basic_project(rng, cid, tier, classes=["ascii", "unsafe"], stats=stats, n_stages=1)
        else:
            c = gen.basic_project(rng, cid, tier, stats=stats)
        c["family"] = fam
        if i % 40 == 7 or (fam == "roundtrip" and rng.random() < 0.04):
            # "any tree": a chain of directories deeper than any worker pool (65 tokens), a file at the bottom and on the way
            dart0 = [a for a in s1eval.artifacts(c) if a[1] == "d"]
            if dart0:
                p = dart0[0][0]
                for lvl in range(rng.choice([66, 70, 90])):
                    p = p + b"/n"
                    c["init"].append(("dir", p))
                    if lvl % 16 == 3:
                        c["init"].append(("file", p + b"/w.txt", "g:%d:%d" % (lvl, lvl)))
                c["init"].append(("file", p + b"/bottom.bin", "g:5:65537"))
                c["timeout"] = 60
                stats["deep_chain"] = stats.get("deep_chain", 0) + 1
        if i % 15 == 11:
            # sub-directories (and files) named exactly like the field names of the manifest schemas, old and new
            dart1 = [a for a in s1eval.artifacts(c) if a[1] == "d"]
            if dart1:
                p0 = dart1[0][0]
                for nm in (b"Path", b"Checksum", b"IsDir", b"SkipCache", b"DisableRecursion", b"path", b"is-dir", b"Contents"):
                    if not any(e[1] == p0 + b"/" + nm for e in c["init"]):
                        c["init"].append(("dir", p0 + b"/" + nm))
                        c["init"].append(("file", p0 + b"/" + nm + b"/inner.txt", "g:%d:%d" % (rng.randrange(1000), rng.choice([0, 7, 300]))))
                stats["schema_field_dirs"] = stats.get("schema_field_dirs", 0) + 1
        dart2 = [a for a in s1eval.artifacts(c) if a[1] == "d"]
        if i % 20 == 3 and dart2:
            # entry names at the limit of what a directory can hold (NAME_MAX = 255 bytes) and just below it: there is no room
            # for a suffix next to them
            p0 = dart2[0][0]
            for ln in (251, 252, 254, 255):
                c["init"].append(("file", p0 + b"/" + b"N" * (ln - 4) + b"%04d" % ln, "g:%d:%d" % (rng.randrange(1000), rng.choice([0, 7, 300]))))
            c["init"].append(("dir", p0 + b"/" + b"D" * 255))
            c["init"].append(("file", p0 + b"/" + b"D" * 255 + b"/" + b"n" * 255, "g:%d:5" % rng.randrange(1000)))
            stats["name_max"] = stats.get("name_max", 0) + 1
        if i % 20 == 13 and dart2:
            # a tracked file next to tracked files whose names are that name plus the suffix a temp-file scheme would pick
            p0 = dart2[0][0]
            for base in (b"model.bin", b"t"):
                c["init"].append(("file", p0 + b"/" + base, "g:%d:%d" % (rng.randrange(1000), rng.choice([7, 300, 65537]))))
                for sfx in (b".tmp", b".part", b"~", b".new", b".lock", b".bak"):
                    c["init"].append(("file", p0 + b"/" + base + sfx, "g:%d:%d" % (rng.randrange(1000), rng.choice([0, 9, 400]))))
                c["init"].append(("file", p0 + b"/." + base + b".tmp", "g:%d:3" % rng.randrange(1000)))
            stats["tmp_siblings"] = stats.get("tmp_siblings", 0) + 1
        if i % 20 == 16 and fam != "unsafe":
            # several NAMES of one inode inside the tracked tree (cp -al, rsync --link-dest, ln): in a directory output, in one of
            # its sub-directories, and as a file output of its own when there is one; the harness also hard-links every other file
            # whose bytes were already written somewhere (lib/s1.py Project.put). No random draw is used here.
            spec_ = "g:%d:%d" % (700 + i, (7, 300, 65537)[(i // 20) % 3])
            for a_ in s1eval.artifacts(c):
                if a_[1] == "d":
                    c["init"].append(("file", a_[0] + b"/hl-first.bin", spec_))
                    c["init"].append(("dir", a_[0] + b"/hl-sub"))
                    c["init"].append(("file", a_[0] + b"/hl-sub/hl-second.bin", spec_))
                    c["init"].append(("file", a_[0] + b"/hl-third.bin", spec_))
            for k_, e in enumerate(list(c["init"])):
                if e[0] == "file" and any(e[1] == a_[0] for a_ in s1eval.artifacts(c)) and not e[2].startswith("sp:"):
                    c["init"][k_] = ("file", e[1], spec_)            # a file artifact that is one more name of the same inode
            c["hardlinks"] = True
            stats["hardlinked_names"] = stats.get("hardlinked_names", 0) + 1
        if fam == "pipeline" and len(c["stages"]) >= 2:
            # later stages take an earlier stage's outputs (and a path inside a directory output) as inputs
            for k in range(1, len(c["stages"])):
                prev_out = c["stages"][k - 1][1]["out"]
                p, fl = rng.choice(prev_out)
                ins = c["stages"][k][1].setdefault("in", [])
                ins.append((p, "d" if "d" in fl else ""))
        commit_targets = []
        if fam == "pipeline" and len(c["stages"]) >= 2 and rng.random() < 0.6:
            commit_targets = [c["stages"][-1][0]]          # only the most downstream stage is named: upstream is committed recursively
        s_commit, s_checkout = rng.choice("lc"), rng.choice("lc")
        keep = [b"workdir", b"workdir/inner"] if c.get("cwd") else []
        variant = rng.choice(["clone", "clone", "rm", "move"])
        checkout_targets = []
        if not commit_targets and rng.random() < 0.35:
            # every stage named explicitly on the command line (argument paths are re-based on the project root)
            commit_targets = [sp for sp, st in c["stages"]]
            checkout_targets = list(commit_targets)
            stats["explicit_targets"] = stats.get("explicit_targets", 0) + 1
        ops = [("commit", s_commit, commit_targets)]
        if fam == "roundtrip" and rng.random() < 0.3:
            # a second generation of the tree: a tracked file is renamed over its sibling (after a link commit both are links
            # into the cache), sometimes a new file appears; the tree as it is then is committed and must come back
            sib = {}
            for e in c["init"]:
                if e[0] == "file":
                    sib.setdefault(e[1].rsplit(b"/", 1)[0] if b"/" in e[1] else b"", []).append(e[1])
            dirs_ = [d_ for d_, fs in sib.items() if len(fs) >= 2 and any(d_ == a[0] or d_.startswith(a[0] + b"/")
                                                                        for a in s1eval.artifacts(c) if a[1] == "d")]
            if dirs_:
                d_ = rng.choice(sorted(dirs_))
                a_, b_ = rng.sample(sorted(sib[d_]), 2)
                ops.append(("mv", a_, b_))
                if rng.random() < 0.4:
                    ops.append(("write", d_ + b"/second-gen.bin", "g:%d:%d" % (rng.randrange(1000), rng.choice([0, 7, 65537]))))
                ops.append(("commit", rng.choice("lc"), commit_targets))
                stats["second_generation"] = stats.get("second_generation", 0) + 1
        if i % 20 == 6:
            # a directory committed as copies; then tracked files are replaced by other bytes of the SAME length that carry an OLD
            # timestamp (cp -p, rsync -t, tar x, mv of an older version) and the tree is committed again: it comes back as it was last seen
            tr_ = [e for e in c["init"] if e[0] == "file" and e[2].startswith("g:") and int(e[2].split(":")[2]) > 0 and
                   any(e[1].startswith(a_[0] + b"/") for a_ in s1eval.artifacts(c) if "d" in a_[1] and "s" not in a_[1] and "r" not in a_[1])]
            if tr_:
                ops = [("commit", "c", commit_targets)]
                for e in rng.sample(tr_, min(len(tr_), 3)):
                    ops.append(("writeold", e[1], "g:%d:%s" % (rng.randrange(100000, 200000), e[2].split(":")[2])))
                ops.append(("commit", "c" if (i // 20) % 2 == 0 else "l", commit_targets))
                stats["same_size_old_mtime_recommit"] = stats.get("same_size_old_mtime_recommit", 0) + 1
        if i % 20 == 9:
            # the cache is lost (a new, empty cache) while the workspace holds regular files and the stage files their checksums: the
            # tree is committed again and must come back from the new cache
            ops = [("commit", "c", commit_targets), ("wipecache",), ("commit", rng.choice("ll" "c"), commit_targets)]
            stats["recommit_after_cache_loss"] = stats.get("recommit_after_cache_loss", 0) + 1
        if rng.random() < 0.5:
            ops.append(("status", []))
        if variant == "clone":
            ops.append(("clone", keep))
        elif variant == "move":
            ops += [("moveproj", "rel" if c["cache"] in ("rel", "sym", "symx") else "abs"), ("clone", keep)]
        else:
            for p, fl, sp in s1eval.artifacts(c):
                if "s" not in fl:
                    ops.append(("rm", p))
        ops.append(("checkout", s_checkout, False, checkout_targets))
        ops.append(("status", []))
        c["ops"] = ops
        c["variant"] = variant
        cases.append(c)
    return cases, stats


def has_unsafe(case):
    for e in case["init"]:
        for comp in e[1].split(b"/"):
            if not gen_safe(comp):
                return True
    return False


def gen_safe(name):
    """the decidable SafeName predicate (mirrors DudModel.Codec.safeName; validated by stream S5)"""
    try:
        s = name.decode("utf-8")
    except UnicodeDecodeError:
        return False
    for ch in s:
        o = ord(ch)
        if o == 0x7F or 0x80 <= o <= 0x9F or o in (0xFEFF, 0xFFFE, 0xFFFF) or 0xD800 <= o <= 0xDFFF:
            return False
    return True


def oracle(run):
    case = run["case"]
    v = []
    steps = run["steps"]
    init = run["initial"]
    if not steps:
        return [("harness", "no steps")]
    # the LAST commit and the workspace it saw (second-generation cases commit twice)
    ci = max(i for i, st in enumerate(steps) if st["op"][0] == "commit")
    commit = steps[ci]
    for st in steps[:ci]:
        if st["op"][0] == "commit" and st["rc"] != 0:
            commit = st          # an earlier commit already failed
            ci = steps.index(st)
            break
    init = steps[ci - 1]["snap"] if ci > 0 else init
    unsafe = has_unsafe(case)
    if commit["rc"] != 0:
        if unsafe and any(not valid_utf8(e[1]) for e in case["init"]):
            return []          # commit may refuse names it cannot represent
        return [("commit-failed", "dud commit exited %d on a regular tree: %s" % (commit["rc"], commit["stderr"][-200:]))]
    # commit leaves the logical content unchanged
    a, b = s1eval.logical(init), s1eval.logical(commit["snap"])
    if a != b:
        v.append(("commit-changed-content", "logical workspace content changed by commit: %s" % diff_views(a, b)))
    final = None
    for st in steps:
        if st["op"][0] == "checkout":
            final = st
    if final is None:
        return v
    if final["rc"] != 0:
        v.append(("checkout-failed", "dud checkout exited %d: %s" % (final["rc"], final["stderr"][-200:])))
        return v
    for p, fl, sp in s1eval.artifacts(case):
        if "s" in fl:
            continue
        want = s1eval.logical(init, under=p, skip_dirs_top=("r" in fl))
        # the artifact was absent before the checkout in every variant: a non-recursive artifact comes back as
        # its top-level files and nothing else
        got = s1eval.logical(final["snap"], under=p)
        if want != got:
            v.append(("tree-differs", "artifact %s not reproduced: %s" % (p.decode(), diff_views(want, got))))
    return v


def valid_utf8(b):
    try:
        b.decode("utf-8")
        return True
    except UnicodeDecodeError:
        return False


def diff_views(a, b):
    out = []
    for p in sorted(set(a) | set(b)):
        if a.get(p) != b.get(p):
            out.append("%r: %s -> %s" % (p, a.get(p), b.get(p)))
    return "; ".join(out[:4])


def finding_of(run, tag, text):
    case = run["case"]
    for f in vlib.load_findings():
        if f.get("property") != PROP:
            continue
        m = f.get("matcher")
        if m == "entry-name-not-utf8" and any(not valid_utf8(e[1]) for e in case["init"]):
            return f["id"], f["what"]
        if m == "entry-name-unsafe-codepoint" and has_unsafe(case) and all(valid_utf8(e[1]) for e in case["init"]):
            return f["id"], f["what"]
    return None


def nontrivial(run):
    case = run["case"]
    files = sum(1 for e in case["init"] if e[0] == "file")
    nested = any(e[0] == "dir" and e[1].count(b"/") >= 1 for e in case["init"])
    return files >= 3 and nested


SEG_GOOD = [b"a", b"b", b"data", b"raw", b"..hidden", b"a..b", b"x y", "\u00e9t\u00e9".encode(), b".a", b"...", b"s.yaml", b"\xff\xfe", b"-v", b"a.tmp"]


def path_stream(R, drv, rng, tier):
    """S7-path: the model's path algebra (Path.clean/dir/join/rel) and its `pathAbsThenRel` (Props/C01path.lean: theorems for every root,
    working directory and argument string) against the real filepath functions and the real pathAbsThenRel, called in-process from a real
    working directory (chdir + $PWD spelt as generated).  For arguments built to denote a known path inside the root the answer is also
    compared with that path (the statement of `rebase_relative`: the same stage path from whichever directory, however it is spelt)."""
    import subprocess, tempfile
    h = vlib.build_harness("inproc")
    T = os.fsencode(tempfile.mkdtemp(prefix="pth.", dir=vlib.scratch()))
    n = 4000 if tier == "quick" else 60000
    lines, meta = [], []

    def comps(k):
        return [rng.choice(SEG_GOOD) for _ in range(k)]

    def noisy(cs, absolute):
        out = b"/" if absolute else b""
        for i, c in enumerate(cs):
            r = rng.random()
            if r < 0.15:
                out += b"./"
            elif r < 0.25 and out:
                out += b"/"
            elif r < 0.32 and i > 0:
                out += rng.choice(SEG_GOOD) + b"/../"
            out += c + (b"/" if i + 1 < len(cs) else b"")
        if rng.random() < 0.2 and out:
            out += rng.choice([b"/", b"/.", b"//"])
        return out

    def raw_string():
        k = rng.randrange(0, 6)
        parts = [rng.choice(SEG_GOOD + [b".", b"..", b"", b"..", b"."]) for _ in range(k)]
        return (b"/" if rng.random() < 0.4 else b"") + rng.choice([b"/", b"/", b"//"]).join(parts)
    for i in range(n):
        fam = ["inside", "updown", "abs-inside", "outside", "raw", "algebra"][i % 6]
        r = [T[1:]] + comps(rng.randrange(0, 3))
        d = comps(rng.randrange(0, 4))
        root = b"/" + b"/".join(r)
        cwd = b"/" + b"/".join(r + d)
        if rng.random() < 0.2:
            cwd = noisy(r + d, True)
        if rng.random() < 0.1:
            root = noisy(r, True)
        expect = None
        if fam == "inside":
            # shortest spelling through the common prefix of d and p, plus noise
            q = rng.randrange(0, len(d) + 1)
            p2 = comps(rng.randrange(0, 3))
            p = d[:q] + p2
            arg = noisy([b".."] * (len(d) - q) + p2, False)
            expect = p
        elif fam == "updown":
            p = comps(rng.randrange(0, 4))
            arg = b"/".join([b".."] * len(d) + p)
            expect = p
        elif fam == "abs-inside":
            p = comps(rng.randrange(0, 4))
            arg = noisy(r + p, True)
            expect = p
        elif fam == "outside":
            up = len(d) + rng.randrange(1, len(r) + 2)
            arg = b"/".join([b".."] * up + comps(rng.randrange(0, 3))) if rng.random() < 0.7 else b"/" + b"/".join(comps(rng.randrange(0, 3)))
        elif fam == "raw":
            arg = raw_string()
        if fam == "algebra":
            a, b = raw_string(), raw_string()
            op = rng.choice(["clean", "dir", "join", "rel", "rel"])
            if op == "rel" and rng.random() < 0.5:
                b = s1_clean_join(a, raw_string())
            lines.append("\t".join([op, hx(a)] + ([hx(b)] if op in ("join", "rel") else [])))
            meta.append(dict(family=fam, op=op, a=a, b=b))
        else:
            lines.append("\t".join(["rebase", hx(root), hx(cwd), hx(arg)]))
            meta.append(dict(family=fam, root=root, cwd=cwd, arg=arg, expect=expect))
    inp = ("\n".join(lines) + "\n").encode()
    pi = subprocess.run([h, "path"], input=inp, stdout=subprocess.PIPE, stderr=subprocess.PIPE, timeout=1200)
    pm = subprocess.run([drv, "path"], input=inp, stdout=subprocess.PIPE, stderr=subprocess.PIPE, timeout=1200)
    oi, om = pi.stdout.decode().split("\n")[:-1], pm.stdout.decode().split("\n")[:-1]
    if pi.returncode != 0 or pm.returncode != 0 or len(oi) != len(lines) or len(om) != len(lines):
        raise vlib.BuildBroken("path stream", (pi.stderr + pm.stderr).decode(errors="replace")[-1500:])
    fams = {}
    for ln, m, a, b in zip(lines, meta, oi, om):
        fams[m["family"]] = fams.get(m["family"], 0) + 1
        R.count("path:" + ln, m["family"] != "algebra" or True)
        show = {k: (v.decode("utf-8", "backslashreplace") if isinstance(v, bytes) else
                    (b"/".join(v).decode("utf-8", "backslashreplace") if isinstance(v, list) else v)) for k, v in m.items()}
        if a == "harness-error":
            continue
        if a != b:
            R.violation(dict(kind="model-implementation-disagreement", stream="S7-path", line=ln, implementation=a, model=b, **show), nofail=True)
        elif m.get("expect") is not None:
            want = hx(b"/".join(m["expect"]) if m["expect"] else b".")
            if a != want:
                R.violation(dict(kind="property-violated-on-implementation", stream="S7-path", line=ln, implementation=a, expected=want,
                                 violations=["pathAbsThenRel does not return the stage path the argument denotes"], **show))
    R.cov["path_stream"] = dict(lines=len(lines), families=fams)


def s1_clean_join(a, b):
    return os.path.normpath(os.path.join(a, b)) if (a or b) else b""


def hx(b):
    return b.hex()


def main(tier, replay=None):
    R = vlib.Result(PROP, tier)
    R.cov["rule"] = ("S1 CLI histories: generated trees (name classes, sizes around 64 KiB, nesting) x artifact kinds x commit/checkout "
                     "strategy x cache placement (rel/abs/other device) x invocation directory x {clone, rm, moved project}; "
                     "non-trivial = at least 3 files and one nested directory; distinct by case id")
    R.cov["checker_cmd"] = "cd lean && lake build DudModel.Props.C01 && lake env lean <audit file with #print axioms>"
    R.cov["trusted_base"] = vlib.TRUSTED_COMMON + ["collision-freedom of BLAKE3 on the byte strings involved (hypothesis Good.inj)"]
    dud = vlib.build_dud()
    drv = vlib.build_driver()
    rng = random.Random(vlib.seed() * 1000 + 1)
    if replay:
        j = json.load(open(replay))
        cases = [s1eval.case_unjson(v["case"]) for v in j.get("violations", []) + j.get("unproved", []) if "case" in v]
        stats = {}
    else:
        n = 120 if tier == "quick" else 1500
        cases, stats = make_cases(rng, tier, n)
    runs, traces = s1.run_cases(dud, drv, cases)
    s1eval.evaluate(R, runs, oracle, finding_of, nontrivial)
    R.cov["distribution"] = stats
    R.cov["families"] = {f: sum(1 for c in cases if c.get("family") == f) for f in set(c.get("family") for c in cases)}
    for run in runs[:3]:
        R.sample(s1eval.describe(run["case"]))
    if not replay:
        path_stream(R, drv, rng, tier)
    R.absorb_audit(vlib.lean_audit(PROP))
    if tier == "thorough":
        ok, log = vlib.leanchecker(["DudModel.Props.C01"])
        R.notes["leanchecker"] = "ok" if ok else log
        if not ok:
            R.violation(dict(kind="leanchecker", detail=log), nofail=True)
    return R.finish()
