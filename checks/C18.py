"""C18 — dud never writes outside the project, its cache and its config."""
import hashlib, json, os, random, shutil, stat, subprocess, tempfile
import vlib, s1, s2, gen, s1eval
from s1 import gojson_str

PROP = "C18"

HOSTILE_PATHS = ["../escape.txt", "../../escape.txt", "a/../../escape.txt", "/tmp/verif-escape-abs.txt", "sub/../../escape_dir/x", "..",
                 "../proj-sibling/victim.txt", "./../escape.txt", "a/b/../../../escape.txt", "../outer_sentinel.txt"]
HOSTILE_ENTRY = ["../escape.txt", "../../escape2.txt", "sub/../../../escape3.txt", "/tmp/verif-escape-entry.txt", "..", "a/b", "./x", "../outer_sentinel.txt",
                 "../proj-sibling/victim.txt", "", "../../proj-sibling/victim.txt"]


def tree_state(top, exclude):
    out = {}
    for dp, dn, fn in os.walk(top):
        dn[:] = [d for d in dn if os.path.join(dp, d) not in exclude]
        for name in dn + fn:
            p = os.path.join(dp, name)
            if p in exclude:
                continue
            st = os.lstat(p)
            if stat.S_ISLNK(st.st_mode):
                out[p] = ("l", os.readlink(p))
            elif stat.S_ISDIR(st.st_mode):
                out[p] = ("d",)
            elif stat.S_ISREG(st.st_mode):
                out[p] = ("f", hashlib.sha256(open(p, "rb").read()).hexdigest(), stat.S_IMODE(st.st_mode))
            else:
                out[p] = ("o",)
    return out


class Sandbox:
    def __init__(self, dud, drv):
        self.dud, self.drv = dud, drv
        self.base = tempfile.mkdtemp(prefix="c18.", dir=vlib.scratch())
        self.b3 = s1.B3(drv)
        self.n = 0

    def project(self):
        self.n += 1
        pb = os.path.join(self.base, "case%d" % self.n)
        proj = s1.Project(self.dud, pb, cache_mode="rel", remote=True)
        # sentinel tree around the project
        outer = os.path.dirname(proj.root)
        open(os.path.join(outer, "outer_sentinel.txt"), "w").write("sentinel")
        os.makedirs(os.path.join(outer, "proj-sibling"))
        open(os.path.join(outer, "proj-sibling", "victim.txt"), "w").write("victim")
        open(os.path.join(pb, "top_sentinel.txt"), "w").write("top")
        return proj

    def outside(self, proj):
        pb = os.path.dirname(os.path.dirname(proj.root))
        return tree_state(pb, {proj.root, proj.xdg, proj.remote_dir, proj.home, os.path.join(pb, "cmdlog")})

    def close(self):
        self.b3.close()
        shutil.rmtree(self.base, ignore_errors=True)
        for p in ("/tmp/verif-escape-abs.txt", "/tmp/verif-escape-entry.txt"):
            if os.path.lexists(p):
                os.unlink(p)


def def_checksums(drv, triples):
    """definition checksums (Lean model: BLAKE3 of the byte-exact definition JSON) of the hostile stages in their loaded form"""
    from s1 import hx
    lines = []
    for hp, where in triples:
        cp = os.path.normpath(hp) if hp else hp
        if where == "workdir":
            lines.append("cmd=%s wd=%s o:%s:-:x" % (hx(b"echo hi"), hx(cp.encode()), hx(b"ok.txt")))
        elif where == "output":
            lines.append("cmd=%s wd=%s o:%s:-:x" % (hx(b"echo hi"), hx(b"."), hx(cp.encode())))
        else:
            lines.append("cmd=%s wd=%s i:%s:-:x o:%s:-:x" % (hx(b"echo hi"), hx(b"."), hx(cp.encode()), hx(b"ok.txt")))
    p = subprocess.run([drv, "stagedef"], input=("\n".join(lines) + "\n").encode(), stdout=subprocess.PIPE, timeout=300)
    return dict(zip(triples, p.stdout.decode().split()))


def hostile_stage_files(sb, R, rng, tier):
    """stage files naming escaping artifact paths / working dirs: every command must refuse them and touch nothing outside;
    also when the file carries the `checksum:` that belongs to exactly this definition (as if dud itself had written it)"""
    viol = []
    sums = def_checksums(sb.drv, [(hp, where) for hp in HOSTILE_PATHS for where in ("output", "input", "workdir")])
    for hp in HOSTILE_PATHS:
        for where in ("output", "input", "workdir", "output+sum", "input+sum", "workdir+sum"):
            with_sum = where.endswith("+sum")
            where = where.split("+")[0]
            proj = sb.project()
            before = sb.outside(proj)
            open(os.path.join(proj.root, "ok.txt"), "w").write("ok")
            doc = "command: echo hi\n"
            if with_sum:
                doc = "checksum: %s\n" % sums[(hp, where)] + doc
            if where == "workdir":
                doc += "working-dir: %s\noutputs:\n  ok.txt: {}\n" % json.dumps(hp)
            elif where == "output":
                doc += "outputs:\n  %s: {}\n" % json.dumps(hp)
            else:
                doc += "inputs:\n  %s: {}\noutputs:\n  ok.txt: {}\n" % json.dumps(hp)
            open(os.path.join(proj.root, "s.yaml"), "w").write(doc)
            rcs = []
            for cmd in (["stage", "add", "s.yaml"], ["commit"], ["checkout"], ["checkout", "--copy"], ["status"], ["run"], ["pull"]):
                if cmd[0] != "stage" and not open(os.path.join(proj.root, ".dud", "index")).read().strip():
                    # put the stage into the index by hand, as a hostile repository would
                    open(os.path.join(proj.root, ".dud", "index"), "w").write("s.yaml\n")
                rc, so, se = proj.dud(cmd, cwd=proj.root)
                rcs.append((cmd, rc))
            after = sb.outside(proj)
            R.count("stagefile-%s-%s%s" % (where, hp, "+sum" if with_sum else ""), True)
            if with_sum:
                where = where + " (carrying the matching definition checksum)"
            if after != before:
                ch = [p for p in set(after) | set(before) if after.get(p) != before.get(p)]
                viol.append(("escape", "stage file with %s %r: entries outside the project changed: %s (exit codes %s)" % (where, hp, ch[:3], rcs)))
            accepted = [c for c, rc in rcs if rc == 0]
            if accepted:
                viol.append(("accepted", "stage file with %s %r was accepted by %s" % (where, hp, accepted)))
            proj.cleanup()
    return viol


def hostile_manifests(sb, R, rng, tier):
    """a cache manifest whose entry would land outside the artifact's directory"""
    viol = []
    for entry in HOSTILE_ENTRY:
        for variant in ("path", "key+path", "nested", "dirchain", "toppath", "nested-toppath"):
            if variant == "dirchain" and entry not in ("..", "../..", "./x", "a/b"):
                continue
            if variant in ("toppath", "nested-toppath") and entry not in ("../escape2.txt", "../../escape2.txt", "..", "../..", "/tmp/verif-abs-escape"):
                continue
            proj = sb.project()
            root = proj.root
            os.makedirs(os.path.join(root, "data", "sub"))
            open(os.path.join(root, "data", "a.txt"), "w").write("aaa")
            open(os.path.join(root, "data", "sub", "b.txt"), "w").write("bbb")
            open(os.path.join(root, "s.yaml"), "w").write("outputs:\n  data:\n    is-dir: true\n")
            proj.stage_paths.append(b"s.yaml")
            proj.dud(["stage", "add", "s.yaml"], cwd=root)
            rc, so, se = proj.dud(["commit"], cwd=root)
            snap = proj.snapshot(sb.b3)
            rec = s1eval.recorded(snap)[b"data"]
            blob = sb.b3.data(b"aaa", proj.base)

            def put(data):
                d = sb.b3.data(data, proj.base)
                p = proj.obj_path(d)
                os.makedirs(os.path.dirname(p), exist_ok=True)
                if not os.path.exists(p):
                    open(p, "wb").write(data)
                    os.chmod(p, 0o444)
                return d
            key = entry if variant != "path" else "innocent.txt"
            child = b'{"checksum":' + gojson_str(blob.encode()) + b',"path":' + gojson_str(entry.encode()) + b'}'
            if variant == "dirchain":
                # the hostile name as a DIRECTORY entry, chained: data -> entry/ -> entry/ -> pwned.txt
                leaf = b'{"path":' + gojson_str(entry.encode()) + b',"contents":{"pwned.txt":{"checksum":"' + blob.encode() + b'","path":"pwned.txt"}}}\n'
                d3 = put(leaf)
                mid = b'{"path":' + gojson_str(entry.encode()) + b',"contents":{' + gojson_str(entry.encode()) + b':{"checksum":"' + d3.encode() + \
                    b'","path":' + gojson_str(entry.encode()) + b',"is-dir":true}}}\n'
                d2 = put(mid)
                man = b'{"path":"data","contents":{' + gojson_str(entry.encode()) + b':{"checksum":"' + d2.encode() + b'","path":' + \
                    gojson_str(entry.encode()) + b',"is-dir":true}}}\n'
            elif variant == "toppath":
                # every entry is a plain child; the manifest's OWN `path` field is the hostile string (nothing should read it)
                man = b'{"path":' + gojson_str(entry.encode()) + b',"contents":{"a.txt":{"checksum":"' + blob.encode() + b'","path":"a.txt"}}}\n'
            elif variant == "nested-toppath":
                inner = b'{"path":' + gojson_str(entry.encode()) + b',"contents":{"b.txt":{"checksum":"' + blob.encode() + b'","path":"b.txt"}}}\n'
                di = put(inner)
                man = b'{"path":"data","contents":{"sub":{"checksum":"' + di.encode() + b'","path":"sub","is-dir":true}}}\n'
            elif variant == "nested":
                inner = b'{"path":"sub","contents":{' + gojson_str(key.encode()) + b':' + child + b'}}\n'
                di = put(inner)
                man = b'{"path":"data","contents":{"sub":{"checksum":"' + di.encode() + b'","path":"sub","is-dir":true}}}\n'
            else:
                man = b'{"path":"data","contents":{' + gojson_str(key.encode()) + b':' + child + b'}}\n'
            dm = put(man)
            txt = open(os.path.join(root, "s.yaml")).read().replace(rec, dm)
            open(os.path.join(root, "s.yaml"), "w").write(txt)
            shutil.rmtree(os.path.join(root, "data"))
            before = sb.outside(proj)
            inside_before = tree_state(root, {os.path.join(root, ".dud")})
            rcs = []
            for cmd in (["status"], ["checkout"], ["checkout", "--copy"], ["push"], ["fetch"], ["pull"], ["commit"]):
                rc, so, se = proj.dud(cmd, cwd=root)
                rcs.append((" ".join(cmd), rc))
            if variant == "path":
                # the recorded (hostile) manifest as the OLD manifest of a commit: the workspace has a file under the innocent key
                os.makedirs(os.path.join(root, "data"), exist_ok=True)
                open(os.path.join(root, "data", "innocent.txt"), "w").write("aaa")
                for cmd in (["commit"], ["commit", "--copy"]):      # link strategy first: it is the one that moves files
                    rc, so, se = proj.dud(cmd, cwd=root)
                    rcs.append((" ".join(cmd) + " (workspace present)", rc))
            after = sb.outside(proj)
            R.count("manifest-%s-%s" % (variant, entry), True)
            if after != before:
                ch = [p for p in set(after) | set(before) if after.get(p) != before.get(p)]
                viol.append(("manifest-escape", "manifest entry path %r (%s): entries outside the project changed: %s (exit codes %s)" % (entry, variant, ch[:3], rcs)))
            # inside the project but outside the artifact's directory
            inside_after = tree_state(root, {os.path.join(root, ".dud")})
            stray = [p for p in inside_after if p not in inside_before and not p.startswith(os.path.join(root, "data"))]
            if stray:
                viol.append(("manifest-escape-inside", "manifest entry path %r (%s): created %s outside the artifact's directory" % (entry, variant, stray[:3])))
            # (a manifest's OWN path field names nothing that is created: ignoring it is fine, only where things land is judged)
            if variant not in ("toppath", "nested-toppath") and (dict(rcs).get("checkout") == 0 or dict(rcs).get("checkout --copy") == 0):
                viol.append(("manifest-accepted", "checkout exited 0 for a manifest with entry path %r (%s)" % (entry, variant)))
            proj.cleanup()
    return viol


def hostile_checksums(sb, R, rng, tier):
    """a recorded CHECKSUM that is not a digest but a path: `<cache>/<first two characters>/<rest>` must not be allowed to name a file
    outside the cache — in a stage file (output, input) and in a manifest entry; every command, both strategies"""
    viol = []
    # relative to <project>/.dud/cache: "../" + "../../proj-sibling/victim.txt" -> <outer>/proj-sibling/victim.txt
    hostile = ["../../../proj-sibling/victim.txt", "../../../outer_sentinel.txt", "..//../../../proj-sibling/victim.txt",
               "ab/../../../../proj-sibling/victim.txt", "../../../proj-sibling/new-file.txt"]
    for cs in hostile:
        for where in ("output", "dir-output", "input", "manifest-entry"):
            proj = sb.project()
            root = proj.root
            open(os.path.join(root, "ok.txt"), "w").write("ok")
            if where == "output":
                doc = "outputs:\n  data.bin:\n    checksum: %s\n" % json.dumps(cs)
            elif where == "dir-output":
                doc = "outputs:\n  data:\n    checksum: %s\n    is-dir: true\n" % json.dumps(cs)
            elif where == "input":
                doc = "command: echo hi\ninputs:\n  in.bin:\n    checksum: %s\noutputs:\n  ok.txt: {}\n" % json.dumps(cs)
            else:
                man = b'{"path":"data","contents":{"x.bin":{"checksum":' + gojson_str(cs.encode()) + b',"path":"x.bin"}}}\n'
                dm = sb.b3.data(man, proj.base)
                pth = proj.obj_path(dm)
                os.makedirs(os.path.dirname(pth), exist_ok=True)
                open(pth, "wb").write(man)
                os.chmod(pth, 0o444)
                doc = "outputs:\n  data:\n    checksum: %s\n    is-dir: true\n" % dm
            open(os.path.join(root, "s.yaml"), "w").write(doc)
            open(os.path.join(root, ".dud", "index"), "w").write("s.yaml\n")
            # the remote may be as hostile as the repository: it holds a file at the place the "checksum" names, relative to ITS root
            planted = os.path.normpath(os.path.join(proj.remote_dir, cs[:2], cs[2:].lstrip("/")))
            planted_new = False
            if cs.endswith("new-file.txt") and not os.path.lexists(planted):
                os.makedirs(os.path.dirname(planted), exist_ok=True)
                open(planted, "w").write("from a hostile remote")
                planted_new = True
            before = sb.outside(proj)
            rcs = []
            for cmd in (["status"], ["checkout"], ["checkout", "--copy"], ["push"], ["fetch"], ["pull"], ["run"], ["commit"], ["commit", "--copy"]):
                rc, so, se = proj.dud(cmd, cwd=root)
                rcs.append((" ".join(cmd), rc))
            after = sb.outside(proj)
            if planted_new and os.path.lexists(planted):
                os.unlink(planted)
            R.count("checksum-%s-%s" % (where, cs), True)
            if after != before:
                ch = sorted(p for p in set(after) | set(before) if after.get(p) != before.get(p))
                viol.append(("checksum-escape", "recorded checksum %r (%s): entries outside project, cache and config changed: %s (exit codes %s)" % (
                    cs, where, [(os.path.relpath(p, os.path.dirname(root)), before.get(p), after.get(p)) for p in ch[:3]], rcs)))
            proj.cleanup()
    return viol


def symlinked_places(sb, R, rng, tier):
    """where a committed directory (the artifact itself, or a sub-directory of it) belongs, the workspace holds a symbolic link to an
    existing directory OUTSIDE the project: checkout must not write through it"""
    viol = []
    for where in ("artifact", "subdir", "deep", "file"):
        for cmd in (["checkout"], ["checkout", "--copy"], ["commit"], ["commit", "--copy"], ["status"], ["push"]):
            if where == "file" and cmd[0] != "commit":
                continue
            proj = sb.project()
            root = proj.root
            os.makedirs(os.path.join(root, "data", "sub", "deeper"))
            open(os.path.join(root, "data", "a.txt"), "w").write("aaa")
            open(os.path.join(root, "data", "sub", "b.txt"), "w").write("bbb")
            open(os.path.join(root, "data", "sub", "deeper", "c.txt"), "w").write("ccc")
            open(os.path.join(root, "s.yaml"), "w").write("outputs:\n  data:\n    is-dir: true\n")
            proj.dud(["stage", "add", "s.yaml"], cwd=root)
            rc, so, se = proj.dud(["commit"], cwd=root)
            outer = os.path.dirname(root)
            big = os.path.join(outer, "bigdisk")
            os.makedirs(os.path.join(big, "sub", "deeper"))
            open(os.path.join(big, "keep.txt"), "w").write("keep")
            # the outside directory holds data of its own, partly under the names the committed directory used
            # (not for checkout: there the outside directory is empty where the committed entries would land)
            for relp, txt in (() if cmd[0] == "checkout" else (("a.txt", "outside a"), ("b.txt", "outside b"), ("c.txt", "ccc"), ("sub/b.txt", "bbb"),
                                                               ("sub/deeper/c.txt", "outside c"), ("deeper/c.txt", "ccc"))):
                os.makedirs(os.path.dirname(os.path.join(big, relp)), exist_ok=True)
                open(os.path.join(big, relp), "w").write(txt)
            rel = {"artifact": "data", "subdir": "data/sub", "deep": "data/sub/deeper", "file": "data/sub/b.txt"}[where]
            if where == "file":
                # a tracked FILE is a link with an absolute target to a live regular file outside the project
                os.unlink(os.path.join(root, rel))
                os.chmod(os.path.join(big, "keep.txt"), 0o644)
                os.symlink(os.path.join(big, "keep.txt"), os.path.join(root, rel))
            else:
                shutil.rmtree(os.path.join(root, rel))
                os.symlink(big, os.path.join(root, rel))
            before = sb.outside(proj)
            rc, so, se = proj.dud(cmd, cwd=root)
            after = sb.outside(proj)
            R.count("symlinked-%s-%s" % (where, "-".join(cmd)), True)
            if after != before:
                ch = sorted(p for p in set(after) | set(before) if after.get(p) != before.get(p))
                viol.append(("symlink-escape", "`dud %s` (exit %d) with a symbolic link to an outside directory where the committed "
                             "directory %s belongs: entries outside the project changed: %s" % (" ".join(cmd), rc, rel, ch[:3])))
            proj.cleanup()
    return viol


def traced(sb, R, stepper, rng, tier):
    """mutating system calls of ordinary commands stay inside project / cache / config"""
    viol = []
    for i in range(3 if tier == "quick" else 12):
        c = gen.basic_project(rng, "tr-%d" % i, "quick", classes=["ascii"], n_stages=1)
        c["ops"] = []
        sc = s2.Scenario(sb.dud, c, sb.b3, sequential=False)
        try:
            for cmd in (["commit"], ["status"], ["checkout", "--copy"], ["push"], ["fetch"]):
                rc, raw, se = sc.run(stepper, cmd)
                canon, outside = sc.canon(raw)
                R.count("trace-%d-%s" % (i, cmd[0]), True)
                real_out = [p for p in outside if not p.startswith(sc.proj.remote_dir)]
                if real_out:
                    viol.append(("trace-outside", "`dud %s` issued mutating calls outside project/cache/config: %s" % (" ".join(cmd), real_out[:3])))
        finally:
            sc.cleanup()
    return viol


def main(tier, replay=None):
    R = vlib.Result(PROP, tier)
    R.cov["rule"] = ("hostile inputs: %d escaping stage-file paths x {output, input, working-dir} x {stage add, commit, checkout, checkout --copy, status, run, pull}; "
                     "%d escaping manifest entry paths x {path only, key+path, nested manifest} x {status, checkout, checkout --copy, push, fetch, pull, commit}; "
                     "checkout over a symbolic link to an outside directory where a committed directory belongs; a sentinel tree around the project is snapshotted before/after; plus ptrace audit of the paths of all mutating calls of ordinary "
                     "commands; non-trivial = the path actually escapes lexically" % (len(HOSTILE_PATHS), len(HOSTILE_ENTRY)))
    R.cov["checker_cmd"] = "cd lean && lake build DudModel.Props.C18 && lake env lean <audit file: #print axioms of every theorem>"
    R.cov["trusted_base"] = vlib.TRUSTED_COMMON + ["lexical path resolution; symlinked intermediate directories are outside the model"]
    dud = vlib.build_dud()
    drv = vlib.build_driver()
    stepper = vlib.build_sysstep()
    rng = random.Random(vlib.seed() * 1000 + 18)
    sb = Sandbox(dud, drv)
    findings = [f for f in vlib.load_findings() if f.get("property") == PROP]
    try:
        viol = hostile_stage_files(sb, R, rng, tier) + hostile_manifests(sb, R, rng, tier) + hostile_checksums(sb, R, rng, tier) + symlinked_places(sb, R, rng, tier) + traced(sb, R, stepper, rng, tier)
    finally:
        sb.close()
    unknown = []
    for tag, text in viol:
        kf = [f for f in findings if f.get("matcher") == "manifest-entry-path-not-validated" and tag.startswith("manifest-")]
        if kf:
            R.known_finding(kf[0]["id"], kf[0]["what"])
        else:
            unknown.append(text)
    if unknown:
        R.violation(dict(kind="property-violated-on-implementation", violations=unknown[:10], count=len(unknown)))
    R.sample(dict(hostile_stage_paths=HOSTILE_PATHS[:4], hostile_manifest_entries=HOSTILE_ENTRY[:4]))
    R.absorb_audit(vlib.lean_audit(PROP))
    return R.finish()
