"""C07 — only commit records data; inputs and read-only commands are side-effect free."""
import random
import vlib, s1, gen, s1eval

PROP = "C07"


def make_cases(rng, tier, n):
    cases, stats = [], {}
    for i in range(n):
        if rng.random() < 0.35 or i % 10 == 3:
            c = gen.pipeline_project(rng, "se-%d" % i, rng.choice([2, 3]), tier=tier)
            c["ops"] = [("run", False, [])]
            pipe = True
        else:
            c = gen.basic_project(rng, "se-%d" % i, tier, stats=stats, dir_inputs=True)
            c["ops"] = []
            pipe = False
        names = [sp for sp, st in c["stages"]]
        if pipe and (rng.random() < 0.3 or i % 10 == 3):
            # "dud itself never touches a stage's artifacts while running": every stage gets a command that looks but does not
            # touch (tools/vprobe), in states where the outputs are committed links, dangling links (cache gone), absent or edited
            ops = [("run", False, []), ("commit", rng.choice("lc"), [])]
            state = ["links", "dangling", "absent", "edited"][(i // 10) % 4] if i % 10 == 3 else rng.choice(["links", "dangling", "absent", "edited"])
            outs = [o for sp, st in c["stages"] for o in st["out"]]
            if state == "dangling":
                ops.append(("wipecache",))
            elif state == "absent":
                ops.append(("rm", rng.choice(outs)[0]))
            elif state == "edited":
                o = rng.choice(outs)
                ops.append(("write", o[0] + (b"/f" if "d" in o[1] else b""), "g:77:7"))
            for sp, st in c["stages"]:
                ops.append(("setcmd", sp, st["cmd"].replace(b"vcmd", b"vprobe", 1)))
            ops.append(("run", False, [rng.choice(names)] if rng.random() < 0.5 else []))
            ops.append(("status", []))
            c["ops"] = ops
            c["tail_ops"] = []
            c["hist_info"] = dict(commits=1)
            c["probe_state"] = state
            stats["probe_" + state] = stats.get("probe_" + state, 0) + 1
            cases.append(c)
            continue
        if not pipe and i % 12 == 7:
            # the index file is missing (untracked in a fresh clone, deleted by hand): read-only commands fail and create nothing
            c["ops"] = [("commit", rng.choice("lc"), [])]
            # (not predicted by the model, whose index and stage files are one object: evaluated by the oracle only)
            c["tail_ops"] = [("rmindex",)] + [rng.choice([("status", []), ("graph", []), ("status", [names[0]]), ("graph", [names[0]])]) for _ in range(3)]
            c["hist_info"] = dict(commits=1)
            stats["missing_index"] = stats.get("missing_index", 0) + 1
            cases.append(c)
            continue
        if not pipe and i % 12 == 9:
            # temporary files another program (or a killed dud) left inside .dud/: reading commands leave them alone
            c["ops"] = [("commit", rng.choice("lc"), []), ("dudtmp", b"index.tmp"), ("dudtmp", b"config.yaml.tmp"), ("dudtmp", b"notes.tmp"),
                        ("status", []), ("graph", []), ("status", [names[0]]), ("checkout", rng.choice("lc"), False, []), ("status", [])]
            c["tail_ops"] = []
            c["hist_info"] = dict(commits=1)
            stats["dud_dir_leftovers"] = stats.get("dud_dir_leftovers", 0) + 1
            cases.append(c)
            continue
        if not pipe and i % 12 == 2:
            # a cache written by an early dud (manifests in the untagged schema): reading commands read it, none rewrites it
            arts_ = s1eval.artifacts(c)
            ops = [("commit", rng.choice("lc"), []), ("oldschema",), ("status", []), ("graph", []), ("run", False, [])]
            if rng.random() < 0.5:
                ops.append(("rm", rng.choice(arts_)[0]))
            ops += [("checkout", rng.choice("lc"), False, []), ("push", False, []), ("status", []), ("checkout", "c", False, [])]
            c["ops"] = ops
            c["tail_ops"] = []
            c["hist_info"] = dict(commits=1)
            stats["old_schema_cache"] = stats.get("old_schema_cache", 0) + 1
            cases.append(c)
            continue
        if not pipe and i % 12 == 5:
            # an output that was committed as a cached artifact (a link into the cache now) is declared `skip-cache: true` by an edit
            # of the stage file: from then on no command may modify, move or replace it
            cand = [(sp, p, fl) for sp, st in c["stages"] for p, fl in st.get("out", []) if "s" not in fl and "d" not in fl]
            if not cand:
                c["init"].append(("file", b"metrics.json", "g:%d:40" % rng.randrange(1000)))
                c["stages"].append((b"metrics.yaml", dict(cmd=b"", wd=b".", out=[(b"metrics.json", "")])))
                cand = [(b"metrics.yaml", b"metrics.json", "")]
            sp_, p_, fl_ = rng.choice(cand)
            c["ops"] = [("commit", "l" if (i // 12) % 3 else "c", []), ("setskip", sp_, p_), ("status", []), ("checkout", "l", False, []), ("status", []),
                        ("checkout", "c", False, []), ("run", False, []), ("push", False, []), ("status", [])]
            c["tail_ops"] = []
            c["hist_info"] = dict(commits=1)
            stats["cached_to_skip"] = stats.get("cached_to_skip", 0) + 1
            cases.append(c)
            continue
        if pipe and i % 10 == 6:
            # a stage whose working directory does not exist and lies INSIDE its own directory output; its command touches nothing:
            # whatever `dud run` answers, dud itself creates nothing below the output
            k_ = rng.randrange(len(c["stages"]))
            sp_, st_ = c["stages"][k_]
            outp = st_["out"][0][0]
            st_["cmd"] = b"vprobe S%d" % k_
            st_["wd"] = outp + rng.choice([b"", b"/tmp", b"/gen/tmp"]) if "d" in st_["out"][0][1] else b"not/there"
            st_.pop("in", None)
            c["edges"] = [(a_, b_) for (a_, b_) in c["edges"] if b_ != k_]
            c["ops"] = [("run", False, [sp_]), ("status", []), ("run", False, [])]
            c["tail_ops"] = []
            c["hist_info"] = dict(commits=1)
            stats["wd_inside_output"] = stats.get("wd_inside_output", 0) + 1
            cases.append(c)
            continue
        if not pipe and rng.random() < 0.15:
            # a fresh clone: nothing committed yet, the cache directory does not exist; read-only commands must not create it
            c["cache"] = rng.choice(["rel", "abs"])
            c["ops"] = [("rmcachedir",)]
            for _ in range(3):
                c["ops"].append(rng.choice([("status", []), ("graph", []), ("status", [rng.choice(names)]), ("graph", [rng.choice(names)])]))
            c["tail_ops"] = []
            c["hist_info"] = dict(commits=0)
            cases.append(c)
            continue
        if not pipe and rng.random() < 0.15:
            # a cached output that is a symbolic link to a plain input / a skip-cache artifact of the project ("latest.csv -> raw.csv"):
            # commit refuses the link; under no circumstances may it move or replace the file the link points to
            targets = [(p, fl) for sp, st in c["stages"] for p, fl in st.get("in", []) if "d" not in fl] + \
                      [(p, fl) for sp, st in c["stages"] for p, fl in st.get("out", []) if "s" in fl and "d" not in fl]
            outs = [(p, fl) for sp, st in c["stages"] for p, fl in st.get("out", []) if "s" not in fl and "d" not in fl]
            if targets and outs:
                o, t = rng.choice(outs), rng.choice(targets)
                c["ops"] = ([("commit", rng.choice("lc"), [])] if rng.random() < 0.5 else []) + \
                    [("wlink", o[0], t[0]), ("commit", "l", []), ("status", []), ("commit", "c", [])]
                c["tail_ops"] = []
                c["hist_info"] = dict(commits=1)
                stats["link_to_plain_input"] = stats.get("link_to_plain_input", 0) + 1
                cases.append(c)
                continue
        if not pipe and rng.random() < 0.12:
            # a cache object is damaged (by the harness), then dud is asked for a verified copy: the command fails, and like every
            # checkout it neither adds, changes nor removes a cache object
            tracked = [e for e in c["init"] if e[0] == "file" and any(e[1] == p or e[1].startswith(p + b"/")
                       for sp, st in c["stages"] for p, fl in st.get("out", []) if "s" not in fl and "r" not in fl)]
            if tracked:
                e = rng.choice(tracked)
                c["ops"] = [("commit", rng.choice("lc"), []), ("corrupt", "p" + e[1].hex(), "g:%d:%d" % (rng.randrange(1000), rng.choice([0, 3, 70000])))]
                if rng.random() < 0.7:
                    c["ops"].append(("rm", e[1]))
                c["ops"] += [("checkout", "c", False, []), ("status", []), ("checkout", rng.choice("lc"), False, [])]
                c["tail_ops"] = []
                c["hist_info"] = dict(commits=1)
                stats["damaged_object_copy_checkout"] = stats.get("damaged_object_copy_checkout", 0) + 1
                cases.append(c)
                continue
        base_ops = c["ops"]
        gen.gen_history(rng, c, rng.randrange(2, 7), allow=("commit", "checkout", "edit", "add", "del", "rmart", "push", "run"))
        c["ops"] = base_ops + c["ops"]
        # then a burst of non-commit commands on that state
        for _ in range(rng.randrange(2, 6)):
            k = rng.choice(["status", "graph", "run", "run_s", "checkout", "push", "fetch", "status_t", "graph_t"])
            tg = [rng.choice(names)] if rng.random() < 0.5 else []
            if k == "status":
                c["ops"].append(("status", []))
            elif k == "status_t":
                c["ops"].append(("status", tg))
            elif k == "graph":
                c["ops"].append(("graph", []))
            elif k == "graph_t":
                c["ops"].append(("graph", tg))
            elif k == "run":
                c["ops"].append(("run", False, tg))
            elif k == "run_s":
                c["ops"].append(("run", True, tg))
            elif k == "checkout":
                c["ops"].append(("checkout", rng.choice("lc"), rng.random() < 0.3, tg))
            else:
                c["ops"].append((k, rng.random() < 0.3, tg))
        c["ops"].append(("commit", rng.choice("lc"), []))
        t = rng.choice(names)
        c["tail_ops"] = [("stagerm", [t]), ("stageadd", [t]), ("status", [])]
        for o in c["ops"] + c["tail_ops"]:
            stats["op_" + o[0]] = stats.get("op_" + o[0], 0) + 1
        cases.append(c)
    return cases, stats


def ws_under(snap, p):
    ws, cache = s1eval.parse_snap(snap)
    return {q: v for q, v in ws.items() if q == p or q.startswith(p + b"/")}


def oracle(run):
    case = run["case"]
    v = []
    prev = run["initial"]
    owned = {}
    for sp, st in case["stages"]:
        for p, fl in st.get("out", []):
            owned[p] = fl

    def is_owned(p):
        for o, ofl in owned.items():
            if p == o:
                return True
            if "d" in ofl and p.startswith(o + b"/") and ("r" not in ofl or b"/" not in p[len(o) + 1:]):
                return True         # a non-recursive directory owns its direct children only
        return False
    plain = []
    skipc = []
    for sp, st in case["stages"]:
        for p, fl in st.get("in", []):
            if not is_owned(p):
                plain.append((p, fl))
        for p, fl in st.get("out", []):
            if "s" in fl:
                skipc.append((p, fl))
    cmds = {sp: stg.get("cmd", b"") for sp, stg in case["stages"]}
    for st in run["steps"]:
        op = st["op"]
        k = op[0]
        what = "`%s`" % s1.op_text(op)
        snap = st["snap"]
        if k == "setcmd":
            cmds[op[1]] = op[2]
        if k == "setskip":
            skipc.append((op[2], "s"))
        if k == "run":
            # a stage whose command does not touch anything: whatever changed below its outputs was done by dud itself
            for sp, stg in case["stages"]:
                if cmds.get(sp, b"").startswith(b"vprobe"):
                    for p, fl in stg.get("out", []):
                        if ws_under(prev, p) != ws_under(snap, p):
                            v.append(("run-touched-artifact", "%s changed the output %s of stage %s although the stage's command does not touch it" % (
                                what, p.decode(), sp.decode())))
        if k in ("status", "graph"):
            for key in ("lines", "cache", "remote", "meta", "stray"):
                if prev[key] != snap[key]:
                    v.append(("readonly-changed", "%s changed the project (%s)" % (what, key)))
                    break
            if {a: (b[0] if b else None) for a, b in prev["stages"].items()} != {a: (b[0] if b else None) for a, b in snap["stages"].items()}:
                v.append(("readonly-changed", "%s changed a stage file" % what))
        if k in ("run", "checkout", "push", "fetch", "status", "graph"):
            for sp in snap["stages"]:
                a, b = prev["stages"].get(sp), snap["stages"].get(sp)
                if (a[0] if a else None) != (b[0] if b else None):
                    v.append(("stage-file-changed", "%s altered stage file %s" % (what, sp.decode())))
        if k in ("run", "status", "graph", "checkout", "push", "stageadd", "stagerm"):
            if prev["cache"] != snap["cache"] or prev["stray"] != snap["stray"]:
                v.append(("cache-changed", "%s added, changed or removed a cache object" % what))
        if k in ("commit", "status", "graph", "push", "fetch", "stageadd", "stagerm", "checkout", "pull"):
            # no dud command (commit included) touches a plain input or a skip-cache artifact
            for p, fl in plain + skipc:
                if ws_under(prev, p) != ws_under(snap, p):
                    kind = "dir" if "d" in fl else "file"
                    v.append(("plain-touched:" + kind, "%s modified the workspace entry %s, which is only a plain input / skip-cache artifact (%s)" % (what, p.decode(), kind)))
        prev = snap
        if len(v) > 6:
            break
    return v


def finding_of(run, tag, text):
    for f in vlib.load_findings():
        if f.get("property") == PROP and f.get("matcher") == "directory-input-or-skipcache-dir" and tag == "plain-touched:dir":
            return f["id"], f["what"]
    return None


def main(tier, replay=None):
    return s1eval.generic_main(PROP, tier, replay, make_cases, oracle, finding_of,
                               nontrivial=lambda run: run["case"].get("hist_info", {}).get("commits", 0) >= 1,
                               rule="S1/S3: random reachable project states (committed, modified, partially checked out, stale pipelines) x bursts of "
                                    "status/graph/run/checkout/push/fetch (+ stage remove/add) with target and flag combinations, and commit over plain "
                                    "inputs and skip-cache outputs; oracle: full project snapshot (workspace, stage-file bytes, .dud metadata, cache, remote) "
                                    "before/after each command per the clause for that command; non-trivial = state has at least one commit",
                               seed_salt=7, n_quick=120, n_thorough=1500)
