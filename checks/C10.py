"""C10 — every path has at most one owner, whatever the order stages are added."""
import itertools, json, os, random, subprocess
import vlib
from s1 import hx

PROP = "C10"

PATHS = [b"a", b"b", b"a/a", b"a/b", b"b/a", b"a/b/a", b"a/b/c.txt", b"x/b/f.txt", b"x/y.txt", b"x", b"a/a/a/a", b"b/b", b"ab",
         b"a/ab", b"x/b", b"ab/c/d.txt", b"ab/c", b"a/b/a/d.txt",
         "caf\u00e9".encode(), "cafe\u0301".encode(), "cafe\u0301/x.bin".encode(), "caf\u00e9/x.bin".encode()]     # composed / decomposed: different names       # a/b/a/d.txt: below a directory (a/b/a) that is itself two levels below "a"       # "ab/…": a sibling whose NAME merely starts with "a" (string prefix, not a path prefix)
FLAGS = ["-", "d", "dr"]


def comps(p):
    return p.split(b"/")


def inside(x, d):
    """x = (path, flags) lies strictly inside d, honouring disable-recursion (reference relation on strings)"""
    dc, xc = comps(d[0]), comps(x[0])
    return len(dc) < len(xc) and xc[:len(dc)] == dc and ("r" not in d[1] or len(dc) + 1 == len(xc))


def overlaps(a, b):
    return a[0] == b[0] or inside(a, b) or inside(b, a)


def stage_ok(st):
    arts = [(p, fl) for p, fl in st["o"]] + [(p, fl) for p, fl in st["i"]]
    if not st["o"] and not st["i"]:
        return False
    if not st["o"]:
        return False           # no outputs and no command
    paths = [p for p, fl in arts]
    if len(set(paths)) != len(paths):
        return False
    if any(p == st["sp"] for p in paths):
        return False
    for x, y in itertools.combinations(arts, 2):
        if overlaps(x, y):
            return False
    return True


def spec_accepts(stages):
    """the property's verdict on a set of stages (order-free)"""
    if len(set(s["sp"] for s in stages)) != len(stages):
        return False
    if not all(stage_ok(s) for s in stages):
        return False
    for s1, s2 in itertools.combinations(stages, 2):
        for a in s1["o"]:
            for b in s2["o"]:
                if overlaps(a, b):
                    return False
    return True


def line_of(stages):
    parts = []
    for s in stages:
        toks = [hx(s["sp"])] + ["o:%s:%s" % (hx(p), fl) for p, fl in s["o"]] + ["i:%s:%s" % (hx(p), fl) for p, fl in s["i"]]
        parts.append(" ".join(toks))
    return "|".join(parts)


def gen_scenarios(rng, tier):
    arts = [(p, fl) for p in PATHS for fl in FLAGS]
    out = []
    # exhaustive: two stages with one output each, both orders
    for a in arts:
        for b in arts:
            s1 = dict(sp=b"s1.yaml", o=[a], i=[])
            s2 = dict(sp=b"s0.yaml", o=[b], i=[])       # sorts before s1: reload order differs from insertion order
            out.append([s1, s2])
    n_sample = 3000 if tier == "quick" else 60000
    for _ in range(n_sample):
        k = rng.choice([1, 2, 2, 3])
        stages = []
        names = rng.sample(range(6), k)
        for j in range(k):
            no = rng.choice([1, 1, 2])
            ni = rng.choice([0, 0, 1, 2])
            outs, ins = [], []
            for a in [rng.choice(arts) for _ in range(no)]:
                if a[0] not in [x[0] for x in outs]:
                    outs.append(a)
            for a in [rng.choice(arts) for _ in range(ni)]:
                if a[0] not in [x[0] for x in ins]:
                    ins.append(a)
            sp = b"st%d.yaml" % names[j]
            if rng.random() < 0.05 and outs and b"." in outs[0][0]:
                sp = outs[0][0]                      # a stage that references itself
            stages.append(dict(sp=sp, o=outs, i=ins))
        out.append(stages)
    return out


def run_lines(cmd, lines):
    p = subprocess.run(cmd, input=("\n".join(lines) + "\n").encode(), stdout=subprocess.PIPE, stderr=subprocess.PIPE, timeout=3000)
    if p.returncode != 0:
        raise vlib.BuildBroken(" ".join(cmd), p.stderr.decode(errors="replace")[-2000:])
    return p.stdout.decode().split("\n")[:-1]


def accepted(verdict):
    return verdict.startswith("v=ok a=ok")


def finding_for(sc, kind):
    for f in vlib.load_findings():
        if f.get("property") != PROP:
            continue
    return None


def cli_stream(R, drv, rng, tier, scenarios):
    """`dud stage add` with one or several stage files per invocation, then stage files edited on disk (normal, back-dated and
    preserved timestamps) and the next command: the index a command works with never holds overlapping outputs, acceptance is
    that of the reference relation, and an index written by a successful add loads again.  Three-way: implementation, reference
    relation, Lean model (`dudmodel owner` on the stages in the order the implementation meets them)."""
    import os, shutil, tempfile, s1
    dud = vlib.build_dud()
    base = tempfile.mkdtemp(prefix="c10cli.", dir=vlib.scratch())
    pending = []          # (model line, implementation verdict, description)
    viol = []
    n_cli = 0

    def st_doc(st):
        return dict(cmd=b"", wd=b".", out=[(p, "" if fl == "-" else fl) for p, fl in st["o"]],
                    **({"in": [(p, "" if fl == "-" else fl) for p, fl in st["i"]]} if st["i"] else {}))
    cand = [sc for sc in scenarios if len(sc) >= 2 and len(set(s_["sp"] for s_ in sc)) == len(sc)
            and all(s_["sp"].startswith(b"s") and s_["o"] for s_ in sc)]
    rng.shuffle(cand)
    for sc in cand[:70 if tier == "quick" else 1200]:
        n_cli += 1
        proj = s1.Project(dud, os.path.join(base, "c%d" % n_cli), remote=False)
        try:
            order = list(range(len(sc)))
            rng.shuffle(order)
            # partition the order into invocations
            groups, cur = [], []
            for k in order:
                cur.append(k)
                if rng.random() < 0.5:
                    groups.append(cur)
                    cur = []
            if cur:
                groups.append(cur)
            for k in order:
                proj.write_stage(sc[k]["sp"], st_doc(sc[k]))
            proj.stage_paths = []
            acc = []          # indices accepted so far
            hist = []
            for g in groups:
                ip_ = os.path.join(proj.root, ".dud", "index")
                if n_cli % 3 == 1 and os.path.exists(ip_) and os.path.getsize(ip_) > 0:
                    # the index was re-saved by another program WITHOUT its final newline (an editor, a merge tool, printf '%s')
                    raw_ = open(ip_, "rb").read()
                    open(ip_, "wb").write(raw_.rstrip(b"\n"))
                    hist.append("index re-saved without a final newline")
                rc, so, se = proj.dud(["stage", "add"] + [os.fsdecode(sc[k]["sp"]) for k in g], cwd=proj.root)
                hist.append("stage add %s -> exit %d" % (" ".join(sc[k]["sp"].decode() for k in g), rc))
                want = spec_accepts([sc[k] for k in acc + g])
                in_order = sorted(acc, key=lambda k: sc[k]["sp"]) + g
                pending.append((line_of([sc[k] for k in in_order]), rc == 0, list(hist), [sc[k] for k in in_order]))
                R.count("cli-add-%d-%d" % (n_cli, len(hist)), len(g) > 1)
                if (rc == 0) != want:
                    viol.append(dict(what=("accepted-with-overlap" if rc == 0 else "rejected-without-overlap"), history=list(hist),
                                     stages=[(sc[k]["sp"].decode(), [(p.decode(), f) for p, f in sc[k]["o"]], [(p.decode(), f) for p, f in sc[k]["i"]]) for k in acc + g],
                                     detail="`dud stage add` with %d file(s) in one invocation: reference relation says %s; %s" % (
                                         len(g), "accept" if want else "reject", se.decode(errors="replace")[-200:])))
                    break
                if rc == 0:
                    acc += g
                    rc2, so2, se2 = proj.dud(["status"], cwd=proj.root)
                    if b"load index from" in se2 or (rc2 != 0 and b"no such file or directory" in se2):
                        viol.append(dict(what="unloadable", history=list(hist), detail="the index written by a successful `dud stage add` cannot be loaded: %s" % se2.decode(errors="replace")[-200:]))
                        break
            else:
                if acc:
                    # a stage file of the index is edited on disk; the next command re-validates the whole index
                    j = rng.choice(acc)
                    donor = rng.choice(cand)
                    new = dict(rng.choice(donor), sp=sc[j]["sp"])
                    path = proj.abspath(sc[j]["sp"])
                    old_times = (os.stat(path).st_atime, os.stat(path).st_mtime)
                    mode = rng.choice(["now", "backdated", "preserved", "future"])
                    proj.write_stage(sc[j]["sp"], st_doc(new))
                    proj.stage_paths = []
                    if mode == "backdated":
                        os.utime(path, (1577836800, 1577836800))
                    elif mode == "preserved":
                        os.utime(path, old_times)
                    elif mode == "future":
                        os.utime(path, (old_times[1] + 86400, old_times[1] + 86400))
                    after = [new if k == j else sc[k] for k in acc]
                    want = spec_accepts(after)
                    rc3, so3, se3 = proj.dud(["status"], cwd=proj.root)
                    loaded = b"load index from" not in se3
                    hist.append("%s rewritten on disk (timestamp %s); status -> exit %d" % (sc[j]["sp"].decode(), mode, rc3))
                    pending.append((line_of(sorted(after, key=lambda s_: s_["sp"])), loaded, list(hist), after))
                    R.count("cli-edit-%d" % n_cli, True)
                    if loaded != want:
                        viol.append(dict(what=("overlap-loaded" if loaded else "rejected-without-overlap"), history=list(hist),
                                         stages=[(s_["sp"].decode(), [(p.decode(), f) for p, f in s_["o"]], [(p.decode(), f) for p, f in s_["i"]]) for s_ in after],
                                         detail="after the edit the reference relation says %s, the next command %s the index" % (
                                             "accept" if want else "reject", "loaded" if loaded else "refused")))
        finally:
            proj.cleanup()
    # a stage file that lists the SAME artifact twice (as a merge or copy/paste leaves it), with different flags: it must be refused —
    # otherwise which of the two definitions owns what is anybody's guess
    for k_, (sec, a1, a2) in enumerate([("outputs", "is-dir: true", "is-dir: true\n    disable-recursion: true"), ("outputs", "{}", "is-dir: true"),
                                         ("inputs", "{}", "is-dir: true")]):
        proj = s1.Project(dud, os.path.join(base, "dup%d" % k_), remote=False)
        try:
            body = "%s:\n  data:\n    %s\n  data:\n    %s\n" % (sec, a1 if a1 != "{}" else "skip-cache: false", a2)
            if sec == "inputs":
                body = "command: echo hi\n" + body + "outputs:\n  o.txt: {}\n"
            open(os.path.join(proj.root, "dup.yaml"), "w").write(body)
            rc, so, se = proj.dud(["stage", "add", "dup.yaml"], cwd=proj.root)
            R.count("cli-duplicate-key-%d" % k_, True)
            if rc == 0:
                viol.append(dict(what="duplicate-artifact-accepted", history=["stage add dup.yaml -> exit 0"],
                                 detail="a stage file listing `data` twice under %s (%r and %r) was accepted" % (sec, a1, a2)))
        finally:
            proj.cleanup()
    shutil.rmtree(base, ignore_errors=True)
    for v in viol[:6]:
        R.violation(dict(kind="property-violated-on-implementation", stream="CLI", **v))
    model = run_lines([drv, "owner"], [p_[0] for p_ in pending]) if pending else []
    bad = 0
    for (ln, impl_ok, hist, stages), vm in zip(pending, model):
        if accepted(vm) and vm.endswith("r=err"):
            mok = False
        else:
            mok = accepted(vm)
        if mok != impl_ok and not viol:
            bad += 1
            if bad <= 3:
                R.violation(dict(kind="model-implementation-disagreement", stream="CLI", history=hist, model=vm, implementation="accepted" if impl_ok else "refused"), nofail=True)
        elif mok == impl_ok:
            R.cov["traces_validated_against_impl"] += 1
    R.cov["cli_scenarios"] = n_cli


def main(tier, replay=None):
    R = vlib.Result(PROP, tier)
    R.cov["rule"] = ("S8 in-process: real Stage.Validate / Index.AddStage / index.FromFile on stage sets over a %d-path universe with shared "
                     "prefixes x {file, dir, non-recursive dir}: exhaustive for two one-output stages (both orders), sampled for <= 3 stages "
                     "with inputs, every insertion order; oracle: reference Overlaps relation on path strings, order independence, reload; "
                     "non-trivial = two artifacts sharing a path prefix" % len(PATHS))
    R.cov["checker_cmd"] = "cd lean && lake build DudModel.Props.C10 && lake env lean <audit file: #print axioms of every theorem>"
    R.cov["trusted_base"] = vlib.TRUSTED_COMMON
    drv = vlib.build_driver()
    h = vlib.build_harness("ownerh")
    rng = random.Random(vlib.seed() * 1000 + 10)
    if replay:
        j = json.load(open(replay))
        scenarios = [[dict(sp=bytes.fromhex(s["sp"]), o=[(bytes.fromhex(p), f) for p, f in s["o"]], i=[(bytes.fromhex(p), f) for p, f in s["i"]])
                      for s in v["scenario"]] for v in j.get("violations", []) + j.get("unproved", []) if "scenario" in v]
    else:
        scenarios = gen_scenarios(rng, tier)
    # every scenario in every insertion order (<= 3 stages: at most 6 orders)
    lines, owner = [], []
    for si, sc in enumerate(scenarios):
        for perm in itertools.permutations(range(len(sc))):
            lines.append(line_of([sc[i] for i in perm]))
            owner.append((si, perm))
    impl = run_lines([h], lines)
    model = run_lines([drv, "owner"], lines)
    per = {}
    for (si, perm), li, vi, vm in zip(owner, lines, impl, model):
        per.setdefault(si, []).append((perm, vi, vm))

    def js(sc):
        return [dict(sp=s["sp"].hex(), o=[(p.hex(), f) for p, f in s["o"]], i=[(p.hex(), f) for p, f in s["i"]]) for s in sc]

    def pretty(sc):
        return [dict(stage=s["sp"].decode(), outputs=["%s[%s]" % (p.decode(), f) for p, f in s["o"]], inputs=["%s[%s]" % (p.decode(), f) for p, f in s["i"]]) for s in sc]
    kinds = {}
    reported = 0
    diverged = 0
    for si, sc in enumerate(scenarios):
        res = per[si]
        want = spec_accepts(sc)
        allarts = [a for s in sc for a in s["o"] + s["i"]]
        nontriv = any(x[0] != y[0] and (x[0].startswith(y[0] + b"/") or y[0].startswith(x[0] + b"/")) for x, y in itertools.combinations(allarts, 2))
        R.count(si, nontriv)
        viol = []
        accs = [accepted(vi) for perm, vi, vm in res]
        if any(a != want for a in accs):
            k = "rejected-without-overlap" if want else "accepted-with-overlap"
            viol.append((k, "reference relation says %s, implementation verdicts per order: %s" % ("accept" if want else "reject", [vi for _, vi, _ in res])))
        if len(set(accs)) > 1:
            viol.append(("order-dependent", "acceptance depends on insertion order: %s" % [(perm, vi) for perm, vi, _ in res]))
        if any(a and vi.endswith("r=err") for a, (perm, vi, vm) in zip(accs, res)):
            viol.append(("unloadable", "accepted, but the written index cannot be loaded: %s" % [vi for _, vi, _ in res]))
        mdiff = [(perm, vi, vm) for perm, vi, vm in res if vi != vm]
        if viol:
            # known findings are matched on the scenario
            fnd = None
            for f in vlib.load_findings():
                if f.get("property") == PROP and matches(f.get("matcher"), sc):
                    fnd = f
                    break
            if fnd:
                R.known_finding(fnd["id"], fnd["what"])
            else:
                for k, t in viol:
                    kinds[k] = kinds.get(k, 0) + 1
                if reported < 6:
                    reported += 1
                    R.violation(dict(kind="property-violated-on-implementation", scenario=js(sc), readable=pretty(sc), violations=[t for k, t in viol]))
        elif mdiff:
            diverged += 1
            if diverged <= 4:
                R.violation(dict(kind="model-implementation-disagreement", stream="S8", scenario=js(sc), readable=pretty(sc),
                                 diffs=[dict(order=p, impl=a, model=b) for p, a, b in mdiff[:4]]), nofail=True)
        else:
            R.cov["traces_validated_against_impl"] += 1
    R.cov["violation_kinds"] = kinds
    R.cov["scenarios"] = len(scenarios)
    R.cov["orders_run"] = len(lines)
    R.cov["exhaustive"] = False
    for sc in scenarios[:2] + scenarios[-2:]:
        R.sample(pretty(sc))
    if not replay:
        cli_stream(R, drv, rng, tier, scenarios)
    R.absorb_audit(vlib.lean_audit(PROP))
    if tier == "thorough":
        ok, log = vlib.leanchecker(["DudModel.Props.C10"])
        if not ok:
            R.violation(dict(kind="leanchecker", detail=log), nofail=True)
    return R.finish()


def matches(matcher, sc):
    return False
