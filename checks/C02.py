"""C02 — the cache is content-addressed, append-only and read-only."""
import random, json
import vlib, s1, gen, s1eval

PROP = "C02"


def make_cases(rng, tier, n):
    cases = []
    stats = {}
    for i in range(n):
        c = gen.basic_project(rng, "hist-%d" % i, tier, stats=stats, wide=(i % 20 == 3))
        if i % 20 == 3:
            # a transfer of more objects than the worker fan-out: commit, push, lose the cache, fetch, use it
            c["ops"] = [("commit", rng.choice("lc"), []), ("push", False, []), ("wipecache",), ("fetch", False, []), ("status", []),
                        ("clone", [b"workdir", b"workdir/inner"] if c.get("cwd") else []), ("checkout", rng.choice("lc"), False, [])]
            c["hist_info"] = dict(edits_between=False)
        elif i % 20 == 13:
            # the same transfer with ':' and blanks in the absolute paths of project and cache (what looks like an rclone
            # remote is a local directory), both cache placements
            c["oddpath"] = True
            c["cache"] = "abs" if (i // 20) % 2 == 0 else "rel"
            c["ops"] = [("commit", rng.choice("lc"), []), ("push", False, []), ("wipecache",), ("fetch", False, []), ("status", []),
                        ("clone", [b"workdir", b"workdir/inner"] if c.get("cwd") else []), ("checkout", rng.choice("lc"), False, [])]
            c["hist_info"] = dict(edits_between=False)
        elif i % 20 == 7:
            # an EMPTY file is a legitimate object (the digest of no bytes): it is committed and then fetch / pull run although
            # nothing (or not everything) was pushed — whatever they do, the object stays
            arts_ = s1eval.artifacts(c)
            d_ = [a for a in arts_ if "d" in a[1]]
            tgt = (d_[0][0] + b"/empty_marker") if d_ else arts_[0][0]
            c["init"] = [e for e in c["init"] if e[1] != tgt] + [("file", tgt, "g:1:0")]
            c["ops"] = [("commit", rng.choice("lc"), []), ("fetch", False, []), ("status", []), ("push", False, []), ("fetch", False, []),
                        ("pull", rng.choice("lc"), False, [])]
            c["hist_info"] = dict(edits_between=False)
        elif i % 20 == 9:
            # the process runs under another umask (077: private, 027: group-readable, 000): objects are 0444 all the same
            c["env"] = dict(c.get("env") or {}, VERIF_UMASK=["077", "027", "000", "277"][(i // 20) % 4])
            c["ops"] = [("commit", "c" if (i // 20) % 2 == 0 else "l", []), ("status", []), ("push", False, []), ("wipecache",), ("fetch", False, []),
                        ("clone", [b"workdir", b"workdir/inner"] if c.get("cwd") else []), ("checkout", rng.choice("lc"), False, []), ("commit", "c", [])]
            c["hist_info"] = dict(edits_between=False)
        elif i % 20 == 17:
            # a tracked file (an output, or an entry of a directory output) is a link with an absolute target to a live regular file
            # OUTSIDE the cache ("the data set lives on a shared disk"), on the cache's file system: whatever commit does with it,
            # no link may end up among the objects and no object may share its bytes with that file
            files_ = [e for e in c["init"] if e[0] == "file"]
            ops_ = [("commit", "l", [])] if (i // 20) % 2 else []
            for e in rng.sample(files_, min(len(files_), 2)):
                ops_.append(("flink", e[1], 1))
            ops_ += [("commit", "l", []), ("status", []), ("commit", "c", []), ("status", [])]
            c["ops"] = ops_
            c["hist_info"] = dict(edits_between=False)
        else:
            gen.gen_history(rng, c, rng.randrange(5, 12 if tier == "quick" else 40))
        if c["hist_info"]["edits_between"]:
            c["two_commits"] = True
        cases.append(c)
    return cases, stats


def oracle(run):
    v = []
    prev = {}
    prev_remote = set()
    for st in run["steps"]:
        snap = st["snap"]
        if st["op"][0] in ("write", "rm", "mkdir"):
            continue
        for b in s1eval.cache_wf(snap, corrupted=st["corrupted"]):
            v.append(("cache-wf", "after `%s`: %s" % (s1.op_text(st["op"]), b)))
        cur = {name: dg for name, dg, mode in snap["cache"]}
        for name, dg in prev.items():
            if name in st["removed"]:
                continue
            if name not in cur:
                v.append(("removed", "after `%s`: object %s disappeared" % (s1.op_text(st["op"]), name)))
            elif cur[name] != dg and name not in st["corrupted"]:
                v.append(("changed", "after `%s`: object %s changed bytes" % (s1.op_text(st["op"]), name)))
        prev = cur
        for name, mode in snap.get("remote_modes", {}).items():
            if mode != 0o444:
                v.append(("remote-mode", "after `%s`: remote object %s has mode %o" % (s1.op_text(st["op"]), name, mode)))
        if snap["stray"] and st["rc"] == 0:
            v.append(("stray", "after successful `%s`: stray files in the cache: %s" % (s1.op_text(st["op"]), snap["stray"][:2])))
        if len(v) > 6:
            break
    return v


def fault_stream(R, dud, drv, rng, tier):
    """whatever call fails, and whatever the exit status, no object may sit under a wrong name afterwards"""
    import errno, s2
    stepper = vlib.build_sysstep()
    b3 = s1.B3(drv)
    try:
        for kind in (["file-copy", "dir-copy"] if tier == "quick" else ["file-copy", "dir-copy", "dir-link", "xdev"]):
            init = [("dir", b"tree"), ("file", b"tree/a.bin", "g:%d:70000" % rng.randrange(100)), ("file", b"tree/b.bin", "g:%d:20000" % rng.randrange(100)),
                    ("file", b"one.bin", "g:%d:300000" % rng.randrange(100))]
            art = (b"one.bin", "") if kind == "file-copy" else (b"tree", "d")
            c = dict(id="c02-fault-" + kind, init=init, stages=[(b"s.yaml", dict(cmd=b"", wd=b".", out=[art]))], ops=[],
                     cache="shm" if kind == "xdev" else "rel")
            cmd = ["commit"] + (["--copy"] if kind.endswith("copy") else [])
            sc = s2.Scenario(dud, c, b3)
            try:
                rc, raw, se = sc.run(stepper, cmd)
                n = len([l for l in raw if l.split("\t")[0].isdigit()])
                for k in range(1, n + 1):
                    for e in ([errno.ENOSPC] if tier == "quick" else [errno.ENOSPC, errno.EIO]):
                        sc.restore()
                        rc2, raw2, se2 = sc.run(stepper, cmd, fault=(k, e))
                        snap = sc.snapshot()
                        R.count("fault-%s-%d-%d" % (kind, k, e), True)
                        bad = [(nm[:16], cd[:16]) for nm, cd, mode in snap["cache"] if nm != cd]
                        if bad:
                            canon, _ = sc.canon(raw)
                            R.violation(dict(kind="property-violated-on-implementation", scenario=c["id"], command=cmd, fault_at=k, errno=e, exit=rc2,
                                             call=sc.by_k.get(k), violations=["object %s holds bytes hashing to %s after `dud %s` (exit %d) with call %d failing" % (
                                                 b_[0], b_[1], " ".join(cmd), rc2, k) for b_ in bad[:3]]))
                            break
                    else:
                        continue
                    break
            finally:
                sc.cleanup()
    finally:
        b3.close()


def race_stream(R, drv, rng, tier):
    """Objects are named by what the hashing code returns to each of the concurrent commit workers: a wide directory is committed
    by the race-detector build; any report of unsynchronised access in the dud process means a worker can be handed another
    file's digest. Thorough: additionally thousands of small files on the plain build, every object re-hashed."""
    race_dud = vlib.build_dud(race=True)
    cases = []
    for i in range(2 if tier == "quick" else 6):
        c = gen.basic_project(rng, "race-%d" % i, "quick", n_stages=1, wide=True, allow_skip=False)
        for j in range(150):
            c["init"].append(("file", c["stages"][0][1]["out"][0][0] + b"/many%03d.bin" % j if "d" in c["stages"][0][1]["out"][0][1]
                              else b"unused/many%03d.bin" % j, "g:%d:%d" % (j, rng.choice([0, 1, 33, 5000]))))
        c["ops"] = [("commit", rng.choice("lc"), []), ("status", []), ("commit", "c", [])]
        c["env"] = dict(GOMAXPROCS="16")
        cases.append(c)
    runs, _ = s1.run_cases(race_dud, drv, cases)
    for run in runs:
        R.count(run["id"], True)
        for st in run["steps"]:
            if st.get("race"):
                R.violation(dict(kind="property-violated-on-implementation", case=s1eval.case_json(run["case"]), describe=s1eval.describe(run["case"]),
                                 violations=["the race detector reports unsynchronised access to shared data in the dud process during `%s` of a "
                                             "directory with %d files: concurrent workers can be handed a digest that is not the digest of their "
                                             "bytes. %s" % (s1.op_text(st["op"]), len(run["case"]["init"]), st["stderr"][-300:])]))
                break
        for t, msg in oracle(run):
            R.violation(dict(kind="property-violated-on-implementation", case=s1eval.case_json(run["case"]), describe=s1eval.describe(run["case"]),
                             violations=[msg]))
            break
    if tier == "thorough":
        dud = vlib.build_dud()
        big = []
        for i in range(2):
            init = [("dir", b"huge")] + [("file", b"huge/f%05d" % j, "g:%d:%d" % (j, j % 7)) for j in range(4000)]
            big.append(dict(id="huge-%d" % i, init=init, stages=[(b"huge.yaml", dict(cmd=b"", wd=b".", out=[(b"huge", "d")]))],
                            ops=[("commit", "l", []), ("commit", "c", [])], cache="rel", timeout=600))
        runs, _ = s1.run_cases(dud, drv, big)
        s1eval.evaluate(R, runs, oracle, None, lambda run: True)


def main(tier, replay=None):
    R = vlib.Result(PROP, tier)
    R.cov["rule"] = ("S1 CLI histories of commit/checkout/status/push/fetch/run with workspace edits in between, both strategies, "
                     "three cache placements; after every command the whole cache is re-hashed with the Lean BLAKE3, modes checked, "
                     "previous objects must persist unchanged; non-trivial = two commits separated by an edit; distinct by case id")
    R.cov["checker_cmd"] = "cd lean && lake build DudModel.Props.C02 && lake env lean <audit file with #print axioms>"
    R.cov["trusted_base"] = vlib.TRUSTED_COMMON + ["collision-freedom of the hash (Good.inj)", "0444 is checked as mode bits (checks run as root)"]
    dud = vlib.build_dud()
    drv = vlib.build_driver()
    rng = random.Random(vlib.seed() * 1000 + 2)
    if replay:
        j = json.load(open(replay))
        cases = [s1eval.case_unjson(v["case"]) for v in j.get("violations", []) + j.get("unproved", []) if "case" in v]
        stats = {}
    else:
        cases, stats = make_cases(rng, tier, 80 if tier == "quick" else 800)
    runs, traces = s1.run_cases(dud, drv, cases)
    s1eval.evaluate(R, runs, oracle, None, lambda run: bool(run["case"].get("two_commits")))
    R.cov["distribution"] = stats
    R.cov["op_mix"] = {}
    for c in cases:
        for op in c["ops"]:
            R.cov["op_mix"][op[0]] = R.cov["op_mix"].get(op[0], 0) + 1
    for run in runs[:3]:
        R.sample(s1eval.describe(run["case"]))
    fault_stream(R, dud, drv, rng, tier)
    if not replay:
        race_stream(R, drv, rng, tier)
    R.absorb_audit(vlib.lean_audit(PROP))
    if tier == "thorough":
        ok, log = vlib.leanchecker(["DudModel.Props.C02"])
        if not ok:
            R.violation(dict(kind="leanchecker", detail=log), nofail=True)
    return R.finish()
