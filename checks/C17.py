"""C17 — stage files round-trip and the definition checksum tracks exactly the definition."""
import json, random, subprocess
import vlib
from s1 import hx

PROP = "C17"
CMDS = ["python train.py", "echo 'a' \"b\" > out", "a: b", "- x", "#not a comment", "line1\nline2\n  indented", "  padded  ", "\tTab", "null", "~", "true", "1e3",
        "{x: y}", "[1,2]", "&anchor *alias", "!tag", "|", ">", "%dir", "@at", "`bt`", "é ü 日本", "a\\b", "back\\", "key: |\n  block", "'", "\"", "x # y",
        "trailing:", "multi\n\nblank", "co:lon", "? q", "!!str 5", "0x1f", "yes", "no", "on", "1_000", "12:30:00", "2001-01-01", ".inf", "<<", "=", " nbsp ",
        " ls", "cmd \\\n  continued", "$(sub) ${var}", "a" * 300, "cat > p.yaml <<END\ntrain: {}\nEND", "x: {}", "k: []\nj: {}\n", "a:\n", "key:", "echo '{}'", "list:\n- a\n- b", "---", "...", "--- |", "a: &x {}\nb: *x"]
KEYS = ["data/out.txt", "null", "true", "~", "1e3", "a b", " lead", "trail ", "a: b", "#c", "{x}", "[y]", "&a", "*b", "!t", "|", ">", "é", "日本/語", "yes", "no", "on", "off",
        "0x1f", "1_0", "12:30", "- x", "? q", "k:", "'q'", "\"dq\"", "a\\b", "<<", "=", "x#y", "deep/er/path/file.bin", "UP.Case", "semi;colon", "per%cent",
        "tab\there", "123", "1.5", ".hidden", "-dash", "a,b", "@at", "`bt", "é́", "\U0001F600", "new\nline"]
WDS = ["", ".", "sub", "sub/dir", "./sub/", "a//b", "sub/./x"]


def clean(p):
    """filepath.Clean for the relative paths used here"""
    parts = []
    for c in p.split("/"):
        if c in ("", "."):
            continue
        parts.append(c)
    return "/".join(parts) or "."


def valid(stage):
    paths = [clean(p) for p, fl, s in stage["i"] + stage["o"]]
    if len(set(paths)) != len(paths) or not stage["o"]:
        return False
    for a in paths:
        if ".." in a or a == "." or a.startswith("/"):
            return False
        for b in paths:
            if a != b and (a.startswith(b + "/")):
                return False
    return True


def gen_stage(rng):
    while True:
        st = dict(cmd=rng.choice(CMDS) if rng.random() < 0.9 else "", wd=rng.choice(WDS), sum=rng.choice(["", "abc123", "f" * 64]), i=[], o=[])
        for _ in range(rng.randrange(0, 3)):
            st["i"].append((rng.choice(KEYS), rng.choice(["-", "d", "dr"]), rng.choice(["", "0" * 64, "cafe"])))
        for _ in range(rng.randrange(1, 4)):
            st["o"].append((rng.choice(KEYS), rng.choice(["-", "d", "dr", "s", "ds"]), rng.choice(["", "1" * 64, "beef"])))
        if valid(st):
            return st


def line(st):
    toks = ["cmd=" + hx(st["cmd"].encode()), "wd=" + hx(st["wd"].encode()), "sum=" + hx(st["sum"].encode())]
    for tag, arts in (("i", st["i"]), ("o", st["o"])):
        for p, fl, s in arts:
            toks.append("%s:%s:%s:%s" % (tag, hx(p.encode()), fl, hx(s.encode())))
    return " ".join(toks)


def expected(st):
    """normal form after write+load, in the harness output format (without def sums)"""
    import unicodedata
    cmd = st["cmd"].strip()            # Go strings.TrimSpace: Unicode White_Space; Python strip(): the same set plus \x1c-\x1f
    parts = ["cmd=" + hx(cmd.encode()), "wd=" + hx(clean(st["wd"]).encode()), "sum=" + hx(st["sum"].encode())]
    for tag, arts in (("i", st["i"]), ("o", st["o"])):
        for p, fl, s in sorted(arts, key=lambda a: clean(a[0]).encode()):
            f = fl.replace("-", "")
            if tag == "i" and "s" not in f:
                f += "s"
            f = "".join(c for c in "drs" if c in f) or "-"
            parts.append("%s:%s:%s:%s:%s" % (tag, hx(clean(p).encode()), f, hx(s.encode()), hx(clean(p).encode())))
    return " ".join(parts)


def run_lines(cmd, lines):
    p = subprocess.run(cmd, input=("\n".join(lines) + "\n").encode(), stdout=subprocess.PIPE, stderr=subprocess.PIPE, timeout=3000)
    if p.returncode != 0:
        raise vlib.BuildBroken(" ".join(cmd), p.stderr.decode(errors="replace")[-2000:])
    return p.stdout.decode().split("\n")[:-1]


def normal_line(st):
    """the loaded form as a driver `stagedef` line"""
    toks = ["cmd=" + hx(st["cmd"].strip().encode()), "wd=" + hx(clean(st["wd"]).encode())]
    for tag, arts in (("i", st["i"]), ("o", st["o"])):
        for p, fl, s in arts:
            toks.append("%s:%s:%s:x" % (tag, hx(clean(p).encode()), fl))
    return " ".join(toks)


def status_stream(R, drv, rng, tier):
    """"status shows the definition up-to-date right after commit and modified after any such edit": CLI histories
    commit ; status ; <definition-only edit> ; status ; commit ; status  (no data changes in between), model and oracle"""
    import s1, gen, s1eval
    dud = vlib.build_dud()
    cases = []
    for i in range(24 if tier == "quick" else 300):
        c = gen.pipeline_project(rng, "def-%d" % i, rng.choice([1, 2, 3]), tier="quick", sink=(i % 4 == 1))
        if i % 8 == 1 and c["stages"][-1][1].get("out"):
            # the leaf has a command, inputs owned by other stages and NO output at all: nothing to cache, a definition all the same
            sp_, st_ = c["stages"][-1]
            srcs_ = [p_ for p_, fl_ in st_.get("in", [])]
            c["stages"][-1] = (sp_, dict(cmd=b"vprobe S%d -- " % (len(c["stages"]) - 1) + b" ".join(srcs_), wd=b".", out=[], **{"in": st_.get("in", [])}))
        if i % 4 == 3:
            # a FILE output that carries `disable-recursion: true` (a former directory turned into a file by deleting the is-dir line)
            for sp_, st_ in c["stages"]:
                fo_ = [k_ for k_, (p_, fl_) in enumerate(st_.get("out", [])) if "d" not in fl_ and "s" not in fl_]
                if fo_:
                    p_, fl_ = st_["out"][fo_[0]]
                    st_["out"][fo_[0]] = (p_, fl_ + "r")
                    break
        names = [sp for sp, st in c["stages"]]
        ops = [("run", False, [])]
        if i % 4 == 2:
            # a dud killed while rewriting a stage file left `<stage>.tmp` behind, longer than the stage file will be
            ops += [("staletmp", nm_, str(rng.choice([200, 5000]))) for nm_ in names]
        ops += [("commit", rng.choice("lc"), []), ("status", [])]
        for _ in range(rng.choice([1, 1, 2])):
            k = rng.randrange(len(names))
            cur = c["stages"][k][1]["cmd"]
            for o_ in reversed(ops):
                if o_[0] == "setcmd" and o_[1] == names[k]:
                    cur = o_[2]
                    break
            toks = cur.split(b" ")
            how = rng.choice(["word", "word", "inner-blank", "comment"])
            if how == "word":
                toks[1] = toks[1] + b"x"
                new = b" ".join(toks)
            elif how == "inner-blank":
                j = rng.randrange(1, len(toks))
                new = b" ".join(toks[:j]) + b"  " + b" ".join(toks[j:])
            else:
                new = cur + b" # note %d" % rng.randrange(100)
            # the definition changes, no artifact does: commit must still record the new definition checksum
            ops += [("setcmd", names[k], new), ("status", []), ("commit", rng.choice("lc"), [] if rng.random() < 0.6 else [names[k]]), ("status", [])]
        c["ops"] = ops
        cases.append(c)
    runs, _ = s1.run_cases(dud, drv, cases)

    def oracle(run):
        v = []
        steps = run["steps"]
        names = [sp for sp, st in run["case"]["stages"]]
        edited = set()
        for k, st in enumerate(steps):
            op = st["op"]
            if op[0] == "setcmd":
                edited.add(op[1])
            elif op[0] == "commit" and st["rc"] == 0:
                # what a successful commit wrote is a stage file: it loads again, and holds exactly the declared artifacts
                for sp_, stg_ in run["case"]["stages"]:
                    d_ = st["snap"]["stages"].get(sp_)
                    want_ = (sorted(p_.decode() for p_, fl_ in stg_.get("in", [])), sorted(p_.decode() for p_, fl_ in stg_.get("out", [])))
                    if d_ is None or d_[1] is None:
                        v.append(("stage-file-unloadable", "after a successful `%s` the stage file %s cannot be loaded: %r" % (
                            s1.op_text(op), sp_.decode(), (d_[0][-120:] if d_ else None))))
                    else:
                        got_ = (sorted(str(x) for x in (d_[1].get("inputs") or {})), sorted(str(x) for x in (d_[1].get("outputs") or {})))
                        if got_ != want_ or any(k_ not in ("checksum", "command", "working-dir", "inputs", "outputs") for k_ in d_[1]):
                            v.append(("stage-file-differs", "after a successful `%s` the stage file %s lists %s / keys %s, declared: %s" % (
                                s1.op_text(op), sp_.decode(), got_, sorted(d_[1]), want_)))
                if k + 1 < len(steps) and steps[k + 1]["op"][0] == "status" and steps[k + 1]["rc"] != 0:
                    v.append(("status-fails-after-commit", "`dud status` straight after a successful `%s` fails: %s" % (
                        s1.op_text(op), steps[k + 1]["stderr"][-160:])))
                if not op[2]:
                    edited = set()
                else:
                    edited -= set(op[2])          # (stages upstream of the target are committed too; they are not edited here unless listed)
                    edited = set(e for e in edited)
            elif op[0] == "status" and st["rc"] == 0:
                shown = {}
                for l in st["status"]:
                    if l.startswith("t "):
                        _, sp, d = l.split(" ", 2)
                        shown[s1.unhx(sp)] = d
                prev_commit = any(s["op"][0] == "commit" and s["rc"] == 0 for s in steps[:k])
                if not prev_commit:
                    continue
                for sp in names:
                    if sp in edited and shown.get(sp) == "up-to-date":
                        v.append(("definition-edit-not-shown", "`dud status` shows the definition of %s up-to-date although its command was edited since the last commit (%s)" % (
                            sp.decode(), [s1.op_text(o) for o in run["case"]["ops"][:k + 1]][-4:])))
                    if sp not in edited and steps[k - 1]["op"][0] == "commit" and steps[k - 1]["rc"] == 0 and not steps[k - 1]["op"][2] \
                            and shown.get(sp) != "up-to-date":
                        v.append(("definition-stale-after-commit", "`dud status` right after a successful `dud commit` shows the definition of %s as %s (%s)" % (
                            sp.decode(), shown.get(sp), [s1.op_text(o) for o in run["case"]["ops"][:k + 1]][-4:])))
        return v
    s1eval.evaluate(R, runs, oracle, None, lambda run: True)
    R.cov["status_histories"] = len(cases)


def main(tier, replay=None):
    R = vlib.Result(PROP, tier)
    R.cov["rule"] = ("S7 in-process: real Stage.ToFile -> stage.FromFile -> CalculateChecksum on generated valid stages: %d command strings and %d artifact "
                     "paths with YAML-significant content (null, ~, true, 1e3, blanks, quotes, colons, multi-line, unicode, '<<'), working dirs, all flag "
                     "combinations, checksums; oracle: reload equals the normal form, definition checksum stable across the round trip, equal to the "
                     "Lean model's byte-exact JSON, unchanged by checksums/order, changed by every single definition edit; non-trivial = a YAML-significant token" % (len(CMDS), len(KEYS)))
    R.cov["checker_cmd"] = "cd lean && lake build DudModel.Props.C17 && lake env lean <audit file: #print axioms of every theorem>"
    R.cov["trusted_base"] = vlib.TRUSTED_COMMON + ["yaml.v2 encoder/decoder pair (a parameter of the model; fuzzed here)"]
    drv = vlib.build_driver()
    h = vlib.build_harness("inproc")
    rng = random.Random(vlib.seed() * 1000 + 17)
    n = 2000 if tier == "quick" else 100000
    stages = [gen_stage(rng) for _ in range(n)]
    # two stages whose definition is far longer than any buffer (1400 / 2500 artifacts, about 80 / 150 KiB of definition): the edits
    # of the pair stream below fall at the very end of it (a late-sorting output added, the flag of the last output, the command)
    for k_, cnt_ in enumerate((1400, 2500)):
        stages.insert(k_, dict(cmd="make all  # %d outputs" % cnt_, wd="work", sum="", i=[("in/%05d.csv" % j, "-", "") for j in range(40)],
                               o=[("out/part-%05d.bin" % j, ["-", "d", "dr"][j % 3], "") for j in range(cnt_)][::-1]))
    if replay:
        stages = json.load(open(replay)).get("stages", stages)
    lines = [line(s) for s in stages]
    out = run_lines([h, "stage"], lines)
    model = run_lines([drv, "stagedef"], [normal_line(s) for s in stages])
    viol, diverged = [], []
    findings = vlib.load_findings()
    for i, (st, o, m) in enumerate(zip(stages, out, model)):
        hostile = any(tok in (st["cmd"],) + tuple(p for p, f, s in st["i"] + st["o"]) for tok in CMDS[2:] + KEYS[1:])
        R.count(i, hostile)
        if not o.startswith("ok "):
            tag = "reload-failed"
            kf = None
            for f in findings:
                if f.get("property") == PROP and f.get("matcher") == "artifact-path-merge-key" and any(p == "<<" for p, fl, s in st["i"] + st["o"]):
                    kf = f
            if kf:
                R.known_finding(kf["id"], kf["what"])
            else:
                viol.append(dict(stage=st, observed=o[:300], what="a valid stage written by dud cannot be loaded again"))
            continue
        toks = o.split(" ")
        d0, d1 = toks[1][5:], toks[2][5:]
        got = " ".join(toks[3:])
        want = expected(st)
        if got != want:
            kf = [f for f in findings if f.get("property") == PROP and f.get("matcher") == "artifact-path-merge-key"]
            if kf and any(p == "<<" for p, fl, s in st["i"] + st["o"]):
                R.known_finding(kf[0]["id"], kf[0]["what"])
            else:
                viol.append(dict(stage=st, what="reloaded stage differs from the normal form", got=got[:400], want=want[:400]))
        elif d0 != d1 and st["cmd"] == st["cmd"].strip() and clean(st["wd"]) == st["wd"] and all(clean(p) == p for p, f, s in st["i"] + st["o"]):
            viol.append(dict(stage=st, what="definition checksum of a normal-form stage changed across write+load", before=d0, after=d1))
        elif d1 != m:
            diverged.append(dict(stage=st, implementation=d1, model=m))
        else:
            R.cov["traces_validated_against_impl"] += 1
    # definition checksum: insensitive to artifact checksums and order, sensitive to every definition edit
    pairs, kinds = [], []
    for st in stages[:400 if tier == "quick" else 5000]:
        base = dict(st)
        v1 = dict(st, i=[(p, f, "9" * 64) for p, f, s in st["i"]], o=[(p, f, "") for p, f, s in reversed(st["o"])], sum="zzz")
        pairs.append((base, v1)); kinds.append("same")
        v2 = dict(st, cmd=st["cmd"] + " x"); pairs.append((base, v2)); kinds.append("cmd")
        v3 = dict(st, wd="other/wd"); pairs.append((base, v3)); kinds.append("wd") if clean(st["wd"]) != "other/wd" else kinds.append("same")
        p, f, s = st["o"][0]
        nf = {"-": "d", "d": "dr", "dr": "d", "s": "-", "ds": "d"}[f]
        v4 = dict(st, o=[(p, nf, s)] + st["o"][1:]); pairs.append((base, v4)); kinds.append("flag")
        v5 = dict(st, o=st["o"] + [("zz_added_output", "-", "")]); pairs.append((base, v5)); kinds.append("add")
        if len(st["o"]) > 100:
            # long definitions: edits that fall at the END of the (sorted) definition
            so_ = sorted(st["o"])
            pl_, fl_, sl_ = so_[-1]
            v7 = dict(st, o=[x for x in st["o"] if x[0] != pl_] + [(pl_, {"-": "d", "d": "dr", "dr": "d"}[fl_], sl_)]); pairs.append((base, v7)); kinds.append("flag")
            v8 = dict(st, o=[x for x in st["o"] if x[0] != pl_]); pairs.append((base, v8)); kinds.append("add")
            v9 = dict(st, o=[x for x in st["o"] if x[0] != pl_] + [(pl_ + "x", fl_, sl_)]); pairs.append((base, v9)); kinds.append("add")
        # command edits that only change INNER white space (still another command: quoting, line structure)
        inner = st["cmd"].strip()
        for old_ws, new_ws in ((" ", "  "), (" ", "\t"), (" ", "\n"), ("\n", " ")):
            if old_ws in inner:
                k_ = inner.index(old_ws)
                v6 = dict(st, cmd=inner[:k_] + new_ws + inner[k_ + len(old_ws):])
                if v6["cmd"].strip() != inner:
                    pairs.append((dict(st, cmd=inner), v6)); kinds.append("cmd-whitespace")
                break
        # a path edit that only adds a blank at its edge is another path
        p0, f0, s0 = st["o"][0]
        if p0 and clean(p0 + " ") != clean(p0):
            v7 = dict(st, o=[(p0 + " ", f0, s0)] + st["o"][1:]); pairs.append((base, v7)); kinds.append("path-edge-blank")
    flat = []
    for a, b in pairs:
        flat += [line(a), line(b)]
    out2 = run_lines([h, "stage"], flat)
    for k, (a, b) in enumerate(pairs):
        oa, ob = out2[2 * k], out2[2 * k + 1]
        if not (oa.startswith("ok ") and ob.startswith("ok ")):
            continue
        da, db = oa.split(" ")[2], ob.split(" ")[2]
        R.count("pair-%d" % k, True)
        if kinds[k] == "same" and da != db:
            viol.append(dict(stage=a, variant=b, what="definition checksum changed although only artifact checksums / map order / stage checksum differ"))
        if kinds[k] != "same" and da == db:
            viol.append(dict(stage=a, variant=b, what="definition checksum unchanged although the definition differs (%s)" % kinds[k]))
    for v in viol[:6]:
        R.violation(dict(kind="property-violated-on-implementation", **v))
    if not viol:
        for d in diverged[:4]:
            R.violation(dict(kind="model-implementation-disagreement", stream="S7", **d), nofail=True)
    R.sample(stages[0]); R.sample(stages[1])
    if not replay or "stages" not in json.load(open(replay)):
        status_stream(R, drv, rng, tier)
    R.absorb_audit(vlib.lean_audit(PROP))
    if tier == "thorough":
        ok, log = vlib.leanchecker(["DudModel.Props.C17"])
        if not ok:
            R.violation(dict(kind="leanchecker", detail=log), nofail=True)
    return R.finish()
