"""C13 — directory operations match the sequential result on every schedule, never hang."""
import os, random, shutil, subprocess, tempfile
import vlib, s1, gen, s1eval

PROP = "C13"
POOLS = [(0, 1), (1, 1), (2, 1), (64, 1), (0, 2), (1, 2), (2, 2), (64, 2)]
PROCS = [1, 2, 4, 16]


def shape(rng, kind, tier):
    init = [("dir", b"art")]
    if kind == "deep":
        d = rng.choice([5, 20, 70]) if tier == "quick" else rng.choice([10, 40, 70, 90])
        p = b"art"
        for i in range(d):
            init.append(("file", p + b"/f%d" % i, "g:%d:%d" % (rng.randrange(50), rng.choice([0, 3, 100]))))
            p = p + b"/d"
            init.append(("dir", p))
        init.append(("file", p + b"/leaf", "g:1:5"))
    elif kind == "wide":
        w = rng.choice([10, 70, 300]) if tier == "quick" else rng.choice([65, 130, 300, 600])
        for i in range(w):
            init.append(("file", b"art/w%d" % i, "g:%d:%d" % (rng.randrange(40), rng.choice([0, 2, 50, 66000] if i % 50 == 0 else [0, 2, 50]))))
    else:
        budget = [rng.choice([40, 120])]
        init += gen.gen_tree(rng, b"art", 5, 12, budget, ["ascii"], [0, 1, 10, 300], allow_empty=False)
        for i in range(3):
            init.append(("dir", b"art/sub%d" % i))
            for j in range(rng.choice([1, 30, 80])):
                init.append(("file", b"art/sub%d/x%d" % (i, j), "g:%d:7" % rng.randrange(30)))
    return init


def make_cases(rng, tier, n):
    cases, stats = [], {}
    for i in range(n):
        kind = rng.choice(["deep", "wide", "mixed"])
        shared, ded = rng.choice(POOLS)
        procs = rng.choice(PROCS)
        c = dict(id="pool-%d" % i, init=shape(rng, kind, tier), stages=[(b"s.yaml", dict(cmd=b"", wd=b".", out=[(b"art", "d")]))],
                 cache=rng.choice(["rel", "shm"]), env=dict(DUD_VERIF_SHARED=str(shared), DUD_VERIF_DEDICATED=str(ded), GOMAXPROCS=str(procs),
                                                            GORACE="halt_on_error=0"), timeout=90)
        files = [e for e in c["init"] if e[0] == "file"]
        fail = rng.choice(["none", "none", "fifo", "missing_obj", "blocked", "bad_manifest"])
        strat = rng.choice("lc")
        ops = []
        deepfiles = [e for e in files if e[1].count(b"/") >= 3]
        if i % 5 == 2 and deepfiles:
            # `dud run` asks for the status in its short-circuit form: a change two or more levels below the directory output makes the
            # stage stale on every schedule (the stage has a command that touches nothing, and a plain input so that it is not run
            # unconditionally)
            c["init"].append(("file", b"src.txt", "g:4:4"))
            c["stages"] = [(b"s.yaml", dict(cmd=b"vprobe S0", wd=b".", out=[(b"art", "d")], **{"in": [(b"src.txt", "")]}))]
            victim = rng.choice(deepfiles)
            c["ops"] = [("commit", strat, []), ("run", False, []), ("write", victim[1], "g:%d:%d" % (rng.randrange(7000, 9000), rng.choice([1, 300]))),
                        ("run", False, []), ("rm", victim[1]), ("run", False, []), ("status", [])]
            c["shape"] = kind
            c["pool"] = (shared, ded, procs)
            c["fail"] = "nested-change-run"
            stats["fail_nested-change-run"] = stats.get("fail_nested-change-run", 0) + 1
            cases.append(c)
            continue
        if fail == "fifo" and files:
            victim = rng.choice(files)
            ops += [("fifo", victim[1] + b".pipe"), ("commit", strat, [])]          # commit fails at that entry, must terminate
            ops += [("rm", victim[1] + b".pipe")]
        ops += [("commit", strat, []), ("status", [])]
        if strat == "c" and files and rng.random() < 0.7:
            # a few entries modified far into the file, many unmodified ones handled by the same workers afterwards
            for f in rng.sample(files, min(len(files), rng.choice([1, 3, 5]))):
                ops.append(("write", f[1], "g:%d:%d" % (rng.randrange(7000, 9000), rng.choice([70001, 270000]))))
            ops.append(("status", []))
        if fail == "bad_manifest":
            # a manifest somewhere in the tree is unreadable: status / checkout of the tree fail at that entry while its
            # siblings are still being worked on — they must come back with the error
            ops += [("corrupt", "m%d" % rng.randrange(1000), "g:5:33"), ("status", []), ("clone", []), ("checkout", rng.choice("lc"), False, [])]
        elif fail == "missing_obj":
            ops += [("rmobj", rng.randrange(1000)), ("status", []), ("clone", []), ("checkout", rng.choice("lc"), False, [])]
        elif fail == "blocked" and files:
            ops += [("clone", []), ("write", rng.choice(files)[1], "g:999:3"), ("checkout", rng.choice("lc"), False, [])]
        else:
            ops += [("clone", []), ("checkout", rng.choice("lc"), False, []), ("status", []), ("commit", rng.choice("lc"), [])]
        c["ops"] = ops
        c["shape"] = kind
        c["pool"] = (shared, ded, procs)
        c["fail"] = fail
        for k in ("shape_" + kind, "pool_%d_%d" % (shared, ded), "procs_%d" % procs, "fail_" + fail):
            stats[k] = stats.get(k, 0) + 1
        cases.append(c)
    return cases, stats


def oracle(run):
    v = []
    if run.get("hang"):
        v.append(("hang", "pool %s: %s" % (run["case"]["pool"], run["hang"])))
    for st in run["steps"]:
        if st.get("race"):
            v.append(("race", "the race detector reported a data race during `%s` (pool %s)" % (s1.op_text(st["op"]), run["case"]["pool"])))
            break
    return v


def inproc(R, dud, drv, rng, tier, runs):
    """goroutine accounting and the watchdog around the exported Commit/Checkout/Status"""
    h = vlib.build_harness("inproc", race=True)
    base = tempfile.mkdtemp(prefix="c13.", dir=vlib.scratch())
    lines = []
    k = 0
    shape_entries = {}
    twin_checks = []
    for kind in ("deep", "wide", "mixed"):
        for shared, ded in (POOLS if tier == "thorough" else [(0, 1), (2, 1), (64, 2)]):
            k += 1
            work = os.path.join(base, "w%d" % k)
            cache = os.path.join(base, "c%d" % k)
            os.makedirs(work)
            shape_entries[k] = shape(rng, kind, "quick")
            for e in shape_entries[k]:
                p = os.path.join(work, os.fsdecode(e[1]))
                if e[0] == "dir":
                    os.makedirs(p, exist_ok=True)
                else:
                    os.makedirs(os.path.dirname(p), exist_ok=True)
                    open(p, "wb").write(s1.content_bytes(e[2]))
            if k % 3 == 0:
                os.mkfifo(os.path.join(work, "art", "zz.pipe"))            # a failing entry: commit must return an error and clean up
            a = "%d %d %s %s art" % (shared, ded, work, cache)
            lines.append("commit link %s -" % a)
            lines.append("statusshort link %s -" % a)
            if k % 3 != 0:
                # the committed artifact, then states in which Status returns early or with an error: a tracked entry modified, one
                # removed, the manifest of a sub-directory unreadable — both forms of Status; whatever it answers, nothing it started
                # may outlive the call
                tracked = sorted(os.fsdecode(e[1]) for e in shape_entries[k] if e[0] == "file")
                lines += ["statusshort link %s =" % a, "status link %s =" % a]
                if tracked:
                    lines += ["fswrite %s changed-by-the-harness" % os.path.join(work, tracked[len(tracked) // 2]), "statusshort link %s =" % a,
                              "status link %s =" % a, "fsrm %s" % os.path.join(work, tracked[0]), "statusshort link %s =" % a]
                lines += ["breaksubman %s" % cache, "statusshort link %s =" % a, "status link %s =" % a, "checkout copy %s =" % a]
    # twin sub-directories: identical names and contents under different parents share ONE manifest object; one of them changes and
    # the artifact is committed again in the same process (whatever is remembered between the two commits is shared by the twins)
    for shared, ded in ([(2, 1), (64, 4)] if tier == "quick" else POOLS):
        k += 1
        work, cache = os.path.join(base, "w%d" % k), os.path.join(base, "c%d" % k)
        for par in range(6):
            d_ = os.path.join(work, "art", "p%d" % par, "sub")
            os.makedirs(d_)
            for j in range(8):
                open(os.path.join(d_, "f%d" % j), "wb").write(b"twin content %d" % j)
        a = "%d %d %s %s art" % (shared, ded, work, cache)
        lines.append("commit link %s -" % a)
        for par in range(3):
            lines.append("fswrite %s edited-%d" % (os.path.join(work, "art", "p%d" % par, "sub", "f%d" % par), par))
        lines += ["commit link %s =" % a, "status link %s =" % a]
        twin_checks.append((len(lines) - 1, work, cache))
    p = subprocess.run([h, "pool"], input=("\n".join(lines) + "\n").encode(), stdout=subprocess.PIPE, stderr=subprocess.PIPE, timeout=1200,
                       env=dict(os.environ, GORACE="halt_on_error=0"))
    out = p.stdout.decode().split("\n")[:-1]
    viol = []
    if b"DATA RACE" in p.stderr:
        viol.append("race detector report in-process: %s" % p.stderr.decode(errors="replace")[:600])
    for ln, o in zip(lines, out):
        R.count("inproc-" + ln, True)
        if "hang" in o:
            viol.append("%s: did not return within the watchdog (%s)" % (ln.split(" /")[0], o))
            continue
        if o.startswith("edit="):
            continue
        g = o.split("goroutines=")[1].split()[0].split("/")
        if int(g[1]) > int(g[0]):
            viol.append("%s: %s goroutines before, %s after the call returned (a goroutine outlives the call)" % (ln.split(" /")[0], g[0], g[1]))
    for idx, work, cache in twin_checks:
        # the status straight after the second commit of the twins: everything is up to date
        if idx < len(out) and "cm=true" not in out[idx]:
            viol.append("twin sub-directories, one edited, committed again in one process: Status straight after the commit answers %r" % out[idx])
    if len(out) < len(lines):
        viol.append("harness stopped after %d of %d operations: %s" % (len(out), len(lines), p.stderr.decode(errors="replace")[-400:]))
    if viol:
        R.violation(dict(kind="property-violated-on-implementation", scenario="in-process Commit/Status with hooked pool sizes", violations=viol[:6]))
    R.cov["inproc_operations"] = len(lines)
    shutil.rmtree(base, ignore_errors=True)


def sequential_search(R, plain, drv, diverged):
    """search for a concrete failing input when model and implementation disagree: run the same history again with
    one worker and GOMAXPROCS=1; a different result is a violation of the property itself (the pooled run is not
    'the result of processing the entries one at a time')"""
    import copy
    for run in diverged[:4]:
        c = copy.deepcopy(run["case"])
        if c["pool"][:2] == (0, 1) and c["pool"][2] == 1:
            continue
        c["id"] = c["id"] + "-seq"
        c["env"] = dict(c["env"], DUD_VERIF_SHARED="0", DUD_VERIF_DEDICATED="1", GOMAXPROCS="1")
        seq_runs, _ = s1.run_cases(plain, drv, [c])
        if not seq_runs or seq_runs[0].get("error"):
            continue
        diffs = []
        for a, b in zip(run["steps"], seq_runs[0]["steps"]):
            what = s1.op_text(a["op"])
            if (a["rc"] == 0) != (b["rc"] == 0):
                diffs.append("`%s`: exit %d with pool %s, %d with one worker" % (what, a["rc"], run["case"]["pool"], b["rc"]))
                break
            if a["snap"]["lines"] != b["snap"]["lines"] or a["snap"]["cache"] != b["snap"]["cache"]:
                diffs.append("`%s`: workspace / cache / recorded checksums differ between pool %s and one worker" % (what, run["case"]["pool"]))
            if a["op"][0] == "status" and sorted(a["status"]) != sorted(b["status"]):
                da = set(a["status"]) ^ set(b["status"])
                diffs.append("`%s`: status differs between pool %s and one worker (%d lines)" % (what, run["case"]["pool"], len(da)))
        if diffs:
            R.violation(dict(kind="property-violated-on-implementation", case=s1eval.case_json(run["case"]), describe=s1eval.describe(run["case"]),
                             pool=list(run["case"]["pool"]), violations=diffs[:4]))


def fault_termination(R, drv):
    """"when an entry fails the operation still terminates with an error": the k-th file-system mutating call of a directory commit
    (files, a sub-directory, manifests) is failed with EIO / EMFILE, for every k, with the default pools: the command comes back
    (non-zero) within its time limit every time"""
    import errno, subprocess, s2
    dud = vlib.build_dud()
    stepper = vlib.build_sysstep()
    b3 = s1.B3(drv)
    viol = []
    try:
        for strat in ("c", "l"):
            init = [("dir", b"tree"), ("dir", b"tree/sub")] + [("file", b"tree/f%d.bin" % j, "g:%d:%d" % (j, 40 + j)) for j in range(6)] + \
                   [("file", b"tree/sub/g%d.bin" % j, "g:%d:%d" % (50 + j, 9)) for j in range(3)]
            c = dict(id="fault-term-" + strat, init=init, stages=[(b"s.yaml", dict(cmd=b"", wd=b".", out=[(b"tree", "d")]))], ops=[], cache="rel")
            sc = s2.Scenario(dud, c, b3, sequential=False)
            try:
                cmd = ["commit"] + (["--copy"] if strat == "c" else [])
                rc, raw, se = sc.run(stepper, cmd)
                n = len([l for l in raw if l.split("\t")[0].isdigit()])
                for k in range(1, n + 1):
                    for en in (errno.EIO, errno.EMFILE):
                        sc.restore()
                        R.count("fault-term-%s-%d-%d" % (strat, k, en), True)
                        try:
                            rc2, raw2, se2 = sc.run(stepper, cmd, fault=(k, en), timeout=25)
                        except subprocess.TimeoutExpired:
                            viol.append("`dud %s` with its %d-th mutating call (of %d) failing with %s did not come back within 25 s" % (
                                " ".join(cmd), k, n, errno.errorcode[en]))
                            subprocess.run(["pkill", "-9", "-f", sc.proj.dud_bin], stdout=subprocess.DEVNULL, stderr=subprocess.DEVNULL)
                            break
                    if viol:
                        break
            finally:
                sc.cleanup()
    finally:
        b3.close()
    if viol:
        R.violation(dict(kind="property-violated-on-implementation", scenario="directory commit with one failing file-system call", violations=viol[:4]))


def mode_dependence(R):
    """everything a commit creates outside the object files — stage file, index, cache directories — gets the permission bits the
    process umask allows, with one worker and with the default pools alike (a wide directory: many workers create cache directories
    at once)"""
    import os, shutil, stat, subprocess, tempfile
    dud = vlib.build_dud()
    base = tempfile.mkdtemp(prefix="c13mode.", dir=vlib.scratch())
    env0 = dict(os.environ, XDG_CONFIG_HOME=os.path.join(base, "xdg"), HOME=base, LC_ALL="C")

    def one(k, env, um):
        root = os.path.join(base, "p%d" % k)
        os.makedirs(os.path.join(root, "data"))
        pre = lambda: os.umask(um)
        q = dict(cwd=root, env=env, stdout=subprocess.PIPE, stderr=subprocess.PIPE, preexec_fn=pre)
        subprocess.run([dud, "init"], **q)
        for j in range(1500):
            open(os.path.join(root, "data", "f%04d" % j), "w").write("content %d" % j)
        open(os.path.join(root, "data.yaml"), "w").write("outputs:\n  data:\n    is-dir: true\n")
        subprocess.run([dud, "stage", "add", "data.yaml"], **q)
        p = subprocess.run([dud, "commit"], timeout=120, **q)
        modes = dict(rc=p.returncode, stage_file=oct(stat.S_IMODE(os.stat(os.path.join(root, "data.yaml")).st_mode)),
                     index=oct(stat.S_IMODE(os.stat(os.path.join(root, ".dud", "index")).st_mode)))
        cd = os.path.join(root, ".dud", "cache")
        modes["cache_dirs"] = sorted(set(oct(stat.S_IMODE(os.stat(os.path.join(cd, d)).st_mode)) for d in os.listdir(cd) if os.path.isdir(os.path.join(cd, d))))
        shutil.rmtree(root, ignore_errors=True)
        return modes
    bad = []
    for um in (0o077, 0o027):
        seq = one(0, dict(env0, DUD_VERIF_SHARED="0", DUD_VERIF_DEDICATED="1"), um)
        for k in range(1, 4):
            par = one(k, env0, um)
            R.count("mode-dependence-%o-%d" % (um, k), True)
            if par != seq:
                bad.append("umask %03o: one worker leaves %s, the default pools leave %s" % (um, seq, par))
                break
    shutil.rmtree(base, ignore_errors=True)
    if bad:
        R.violation(dict(kind="property-violated-on-implementation", scenario="`dud commit` of a directory of 1500 files under a private umask",
                         violations=["the permission bits of what commit creates depend on the schedule: " + b_ for b_ in bad]))


def schedule_dependence(R, drv):
    """a workspace link that points at the cache path of an object which is NOT in the cache (a dangling link into the cache), next to a
    regular file that holds exactly the bytes of that object: with one worker (entries in listing order) the result is fixed; with the
    default pool it must be the same on every run (Lean counterpart: ExampleOrder.order_matters_dangling_link in Props/C13order.lean)"""
    import os, shutil, subprocess, tempfile
    dud = vlib.build_dud()
    base = tempfile.mkdtemp(prefix="c13sched.", dir=vlib.scratch())
    env0 = dict(os.environ, XDG_CONFIG_HOME=os.path.join(base, "xdg"), HOME=base, LC_ALL="C")
    b3 = s1.B3(drv)
    digest = b3.data(b"hello", base)
    b3.close()

    def one(k, env, link_name):
        root = os.path.join(base, "p%d" % k)
        os.makedirs(os.path.join(root, "data"))
        q = dict(cwd=root, env=env, stdout=subprocess.PIPE, stderr=subprocess.PIPE)
        subprocess.run([dud, "init"], **q)
        open(os.path.join(root, "data", "m"), "w").write("hello")
        for j in range(6):
            open(os.path.join(root, "data", "pad%d" % j), "w").write("pad %d" % j)
        os.symlink("../.dud/cache/%s/%s" % (digest[:2], digest[2:]), os.path.join(root, "data", link_name))
        open(os.path.join(root, "data.yaml"), "w").write("outputs:\n  data:\n    is-dir: true\n")
        subprocess.run([dud, "stage", "add", "data.yaml"], **q)
        p = subprocess.run([dud, "commit"], timeout=60, **q)
        shutil.rmtree(root, ignore_errors=True)
        return p.returncode
    outcomes = {}
    for link_name in ("z_link", "a_link"):
        seq = one(0, dict(env0, DUD_VERIF_SHARED="0", DUD_VERIF_DEDICATED="1"), link_name)      # one worker: the sequential result
        seen = set()
        n = 0
        for k in range(1, 61):
            n += 1
            seen.add(one(k, env0, link_name))
            if len(seen) > 1 or (seen and seq not in seen):
                break
        R.count("schedule-dependence-%s" % link_name, True)
        outcomes[link_name] = dict(sequential_exit=seq, default_pool_exits=sorted(seen), runs=n)
    shutil.rmtree(base, ignore_errors=True)
    R.cov["schedule_dependence"] = outcomes
    bad = {k_: v_ for k_, v_ in outcomes.items() if v_["default_pool_exits"] != [v_["sequential_exit"]]}
    if bad:
        kf = [f for f in vlib.load_findings() if f.get("property") == PROP and f.get("matcher") == "dangling-cache-link-next-to-its-content"]
        if kf:
            R.known_finding(kf[0]["id"], kf[0]["what"])
        else:
            R.violation(dict(kind="property-violated-on-implementation", scenario="directory data/ with the regular file m (bytes 'hello'), six other files and a "
                             "link whose target is the cache path of BLAKE3('hello') while the cache is empty; `dud commit`", observed=bad,
                             violations=["the exit status of `dud commit` on the same tree depends on the schedule: one worker exits %s, the default pool %s" % (
                                 v_["sequential_exit"], v_["default_pool_exits"]) for v_ in bad.values()]))


def main(tier, replay=None):
    import json
    R = vlib.Result(PROP, tier)
    R.cov["rule"] = ("S7/S1: commit/status/checkout of deep chains (to depth 70-90), wide directories (to 300-600 entries) and mixed trees through the "
                     "race-detector build with hooked pool sizes {0,1,2,64}x{1,2} and GOMAXPROCS {1,2,4,16}, with a failing entry (FIFO, missing "
                     "object, blocked path); results compared with the sequential Lean model (exact checksums, snapshots, statuses); watchdog; "
                     "in-process goroutine accounting; non-trivial = depth or width beyond the pool")
    R.cov["checker_cmd"] = "cd lean && lake build DudModel.Props.C13 && lake env lean <audit file: #print axioms of every theorem>"
    R.cov["trusted_base"] = vlib.TRUSTED_COMMON + ["the abstraction from Go channels/select/errgroup to the Pool protocol is by review plus regenerated shape facts",
                                                   "absence of data races and goroutine leaks is observed (race detector, goroutine count), not proved"]
    dud = vlib.build_dud(race=True)
    drv = vlib.build_driver()
    rng = random.Random(vlib.seed() * 1000 + 13)
    if replay:
        j = json.load(open(replay))
        cases = [s1eval.case_unjson(v["case"]) for v in j.get("violations", []) + j.get("unproved", []) if "case" in v]
        stats = {}
    else:
        cases, stats = make_cases(rng, tier, 40 if tier == "quick" else 400)
    if tier == "quick" and not replay:
        # most cases on the plain build (speed), a subset under the race detector
        plain = vlib.build_dud()
        runs, traces = s1.run_cases(plain, drv, cases[8:])
        runs2, traces2 = s1.run_cases(dud, drv, cases[:8])
        runs = runs2 + runs
    else:
        runs, traces = s1.run_cases(dud, drv, cases)
    diverged = s1eval.evaluate(R, runs, oracle, None, lambda run: run["case"]["shape"] in ("deep", "wide"))
    sequential_search(R, vlib.build_dud(), drv, diverged)
    R.cov["distribution"] = stats
    for run in runs[:2]:
        d = s1eval.describe(run["case"])
        d["pool"] = run["case"]["pool"]
        R.sample(d)
    inproc(R, dud, drv, rng, tier, runs)
    if not replay:
        schedule_dependence(R, drv)
    mode_dependence(R)
    fault_termination(R, drv)
    R.absorb_audit(vlib.lean_audit(PROP))
    if tier == "thorough":
        ok, log = vlib.leanchecker(["DudModel.Props.C13"])
        if not ok:
            R.violation(dict(kind="leanchecker", detail=log), nofail=True)
    return R.finish()
