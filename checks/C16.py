"""C16 — an artifact's checksum depends only on its path and content."""
import random, json, copy
import vlib, s1, gen, s1eval

PROP = "C16"


def variants(rng, base, tier, k):
    """several ways to arrive at the same final tree"""
    out = []
    final = base["init"]
    files = [e for e in final if e[0] == "file"]
    arts = s1eval.artifacts(base)
    dart = [a for a in arts if "d" in a[1]]
    for v in range(6):
        c = copy.deepcopy(base)
        c["id"] = "%s-v%d" % (base["id"], v)
        c["group"] = base["id"]
        c["cache"] = ["rel", "abs", "shm", "rel", "rel", "sym"][v]
        c["env"] = [None, dict(DUD_VERIF_SHARED="0", DUD_VERIF_DEDICATED="1"), dict(DUD_VERIF_SHARED="2", DUD_VERIF_DEDICATED="2"), None, None, None][v]
        if c["env"] is None:
            del c["env"]
        strat = "lc"[v % 2]
        if v == 0:
            c["ops"] = [("commit", strat, [])]
            c["how"] = "scratch"
            dart_ = [a for a in arts if a[1] == "d"]
            if dart_ and k % 2 == 1:
                # dud is started INSIDE the directory artifact it commits
                c["cwd"] = dart_[0][0]
                c["how"] = "scratch-from-inside-the-artifact"
        elif v == 1:
            init = [(e[0], e[1], "sd:" + e[2][3:]) if e[0] == "file" and e[2].startswith("sp:") else e for e in final]   # holes written out
            rng.shuffle(init)                      # other creation order (listing order on tmpfs/ext4 differs)
            dirs = [e for e in init if e[0] == "dir"]
            rest = [e for e in init if e[0] != "dir"]
            c["init"] = sorted(dirs, key=lambda e: e[1].count(b"/")) + rest
            c["ops"] = [("commit", strat, [])]
            c["how"] = "scratch-shuffled"
        elif v == 2:
            # start from an earlier version, commit, edit into the final tree, recommit (twice)
            ops = []
            init = []
            twin_old = {bytes.fromhex(k_): v_ for k_, v_ in base.get("twin_old", {}).items()}
            for e in final:
                r = rng.random()
                if e[0] == "file" and e[1] in twin_old:
                    # the earlier version of this file is what its twins still hold: the sub-directory had the same manifest as they
                    init.append(("file", e[1], twin_old[e[1]]))
                    ops.append(("write", e[1], e[2]))
                elif e[0] == "file" and r < 0.3:
                    if rng.random() < 0.5:
                        # same size, other bytes, and the replacement keeps an old timestamp (mv / cp -p / rsync -t / tar x)
                        init.append(("file", e[1], "g:%d:%s" % (rng.randrange(100000, 200000), e[2].split(":")[2])))
                        ops.append(("writeold", e[1], e[2]))
                    else:
                        init.append(("file", e[1], "g:%d:%d" % (rng.randrange(100000, 200000), rng.choice([0, 7, 70000]))))
                        ops.append(("write", e[1], e[2]))
                elif e[0] == "file" and r < 0.45 and any(e[1].startswith(a[0] + b"/") for a in dart):
                    ops.append(("write", e[1], e[2]))              # added later
                elif e[0] == "file" and r < 0.6 and any(e[1].startswith(a[0] + b"/") for a in dart):
                    # committed under another name first, then renamed as it is (after a link commit: the link is renamed,
                    # the number of entries stays the same and no byte is read again)
                    init.append(("file", e[1] + b".old", e[2]))
                    ops.append(("mv", e[1] + b".old", e[1]))
                else:
                    init.append(e)
            if dart and rng.random() < 0.6:
                extra = rng.choice(dart)[0] + b"/zz_gone.tmp"
                init.append(("file", extra, "g:3:3"))
                ops.append(("rm", extra))
            c["init"] = init
            half = len(ops) // 2
            strat = rng.choice("lc")
            c["ops"] = [("commit", strat, [])] + ops[:half] + [("commit", rng.choice("lc"), [])] + ops[half:] + [("commit", strat, [])]
            c["how"] = "incremental"
        elif v == 4:
            # copies that are edited in place: an earlier, shorter version is committed with --copy (the workspace keeps regular
            # files), grows to its final length through the same inode, and is committed again
            init, ops = [], []
            for e in final:
                if e[0] == "file" and e[2].startswith("g:") and int(e[2].split(":")[2]) >= 2 and rng.random() < 0.5:
                    sd, n_ = e[2].split(":")[1:]
                    init.append(("file", e[1], "g:%s:%d" % (sd, int(n_) - rng.choice([1, 1, min(int(n_) - 1, 4096) or 1]))))
                    ops.append(("append", e[1], e[2]))
                else:
                    init.append(e)
            c["init"] = init
            c["ops"] = [("commit", "c", [])] + ops + ([("status", [])] if rng.random() < 0.5 else []) + [("commit", rng.choice("lc"), [])]
            c["how"] = "copy-then-append-in-place" if ops else "scratch"
        elif v == 5:
            # the same tree at the same path, but the directory is declared as an INPUT of its stage (no other stage owns it):
            # the checksum recorded for it is that of the output
            c["how"] = "scratch"
            for sp, st in c["stages"]:
                dd = [(p, fl) for p, fl in st["out"] if fl in ("d", "dr")]
                if dd:
                    p, fl = rng.choice(dd)
                    st["out"] = [x for x in st["out"] if x[0] != p]
                    st.setdefault("in", []).append((p, fl))          # a non-recursive directory stays non-recursive as an input
                    if not st["out"]:
                        c["init"].append(("file", b"dummy_" + sp.replace(b"/", b"_") + b".out", "g:1:1"))
                        st["out"] = [(b"dummy_" + sp.replace(b"/", b"_") + b".out", "s")]
                    c["how"] = "declared-as-input"
                    c["moved_to_input"] = c.get("moved_to_input", []) + [p]
            c["ops"] = [("commit", strat, [])]
        else:
            # an entry changes type between commits: file -> directory or directory -> file
            inside = [e for e in files if any(e[1].startswith(a[0] + b"/") for a in dart)]
            sub = [e for e in final if e[0] == "dir" and any(e[1].startswith(a[0] + b"/") for a in dart)]
            init = list(final)
            ops = []
            if inside and rng.random() < 0.5:
                e = rng.choice(inside)
                init = [x for x in init if x is not e] + [("dir", e[1]), ("file", e[1] + b"/was_dir.txt", "g:1:1")]
                ops = [("write", e[1], e[2])]            # `write` replaces the directory by the file
                c["how"] = "swap-dir-to-file"
            elif sub:
                d = rng.choice(sub)[1]
                below = [x for x in final if x[1].startswith(d + b"/")]
                init = [x for x in init if x[1] != d and not x[1].startswith(d + b"/")] + [("file", d, "g:2:2")]
                ops = [("mkdir", d)] + [("mkdir", x[1]) if x[0] == "dir" else ("write", x[1], x[2]) for x in sorted(below, key=lambda x: x[1].count(b"/"))]
                c["how"] = "swap-file-to-dir"
            else:
                c["how"] = "scratch"
            c["init"] = init
            c["ops"] = [("commit", strat, [])] + ops + [("commit", rng.choice("lc"), [])]
        out.append(c)
    for v in ((6, 7, 8) if base.get("twin_old") else ()):
        # only the twins' earlier version differs: commit, replace the files of one twin, commit again (default pools: the twins are
        # committed side by side)
        c = copy.deepcopy(base)
        c["id"] = "%s-v%d" % (base["id"], v)
        c["group"] = base["id"]
        c["cache"] = "rel"
        tw = {bytes.fromhex(k_): v_ for k_, v_ in base["twin_old"].items()}
        c["init"] = [("file", e[1], tw[e[1]]) if e[0] == "file" and e[1] in tw else e for e in final]
        c["ops"] = [("commit", "l", [])] + [("write", e[1], e[2]) for e in final if e[0] == "file" and e[1] in tw] + [("commit", "lc"[v % 2], [])]
        c["how"] = "incremental-twins"
        out.append(c)
    return out


def make_cases(rng, tier, n):
    cases, stats = [], {}
    for i in range(n // 6):          # (bases with twins get three more histories)
        base = gen.basic_project(rng, "tree-%d" % i, tier, stats=stats, allow_inputs=False)
        base.pop("cwd", None)
        base["init"] = [e for e in base["init"] if not e[1].startswith(b"workdir")]
        d0 = [a for a in s1eval.artifacts(base) if a[1] == "d"]
        if i % 5 == 2 and d0:
            # sub-directories with the same name and (in the earlier version) the same entries under different parents: they share
            # one manifest object until the files of ONE of them are replaced
            old = {}
            base["init"].append(("dir", d0[0][0] + b"/tw"))
            for par in range(6):
                base["init"] += [("dir", d0[0][0] + b"/tw/p%d" % par), ("dir", d0[0][0] + b"/tw/p%d/x" % par)]
                for j in range(40):
                    spec_old = "g:%d:%d" % (7000 + j, 20 + j)
                    pth = d0[0][0] + b"/tw/p%d/x/f%d" % (par, j)
                    if par == 1:
                        base["init"].append(("file", pth, "g:%d:%d" % (8000 + j + 10 * i, 31 + j)))
                        old[pth.hex()] = spec_old
                    else:
                        base["init"].append(("file", pth, spec_old))
            base["twin_old"] = old
            stats["twin_subdirs"] = stats.get("twin_subdirs", 0) + 1
        if i % 5 == 3 and d0:
            # names that differ only in their Unicode normalisation form (composed / decomposed) are different names with different
            # contents, next to each other and in sub-directories of their own
            p0 = d0[0][0]
            nfc, nfd = "caf\u00e9".encode(), "cafe\u0301".encode()
            base["init"] += [("file", p0 + b"/" + nfc + b".txt", "g:%d:11" % (900 + i)), ("file", p0 + b"/" + nfd + b".txt", "g:%d:12" % (950 + i)),
                             ("dir", p0 + b"/" + nfc), ("file", p0 + b"/" + nfc + b"/x.bin", "g:%d:5" % (970 + i)),
                             ("dir", p0 + b"/" + nfd), ("file", p0 + b"/" + nfd + b"/x.bin", "g:%d:6" % (980 + i)),
                             ("file", p0 + b"/" + "\u212b".encode() + b"ngstrom", "g:%d:7" % (990 + i)), ("file", p0 + b"/" + "\u00c5".encode() + b"ngstrom", "g:%d:8" % (995 + i))]
            stats["normalisation_twins"] = stats.get("normalisation_twins", 0) + 1
        if i % 5 == 4:
            # files of a MiB and more that end in a hole (extended with truncate, preallocated): their content is their bytes, zeros
            # included — as a file artifact and inside a directory; one history writes the zeros out
            tot = (1 << 20) + rng.choice([0, 1, 4096, 70000])
            base["init"].append(("file", b"sparse_tail.bin", "sp:%d:%d:%d" % (rng.randrange(1000), rng.choice([1, 300000, 1 << 20]), tot + 4096)))
            base["stages"].append((b"sparse.yaml", dict(cmd=b"", wd=b".", out=[(b"sparse_tail.bin", "")])))
            if d0:
                base["init"].append(("file", d0[0][0] + b"/sparse_in_dir.bin", "sp:%d:%d:%d" % (rng.randrange(1000), 2 << 20, (3 << 20) + 5)))
            stats["sparse_tail"] = stats.get("sparse_tail", 0) + 1
        for c in variants(rng, base, tier, i):
            stats["how_" + c["how"]] = stats.get("how_" + c["how"], 0) + 1
            cases.append(c)
    return cases, stats


def oracle(run):
    # single-run part: the last commit must succeed (it commits a regular tree)
    steps = run["steps"]
    v = []
    for st in steps:
        if st["op"][0] == "commit" and st["rc"] != 0:
            v.append(("commit-failed:" + run["case"]["how"], "`%s` failed in history %s (%s): %s" % (
                s1.op_text(st["op"]), run["case"]["how"], [s1.op_text(o) for o in run["case"]["ops"]][:6], st["stderr"][-150:])))
            break
    return v


def finding_of(run, tag, text):
    for f in vlib.load_findings():
        if f.get("property") != PROP:
            continue
        if f.get("matcher") == "entry-kind-changed-between-commits" and tag in ("commit-failed:swap-dir-to-file", "commit-failed:swap-file-to-dir"):
            return f["id"], f["what"]
    return None


def hasher_history(R):
    """the checksum of a byte string does not depend on what the process hashed before, in particular not on a read that FAILED
    half-way through an earlier computation (in-process: real checksum.Checksum with scripted readers)"""
    import subprocess
    h = vlib.build_harness("inproc")
    lines, expect = [], []
    for i in range(40):
        seed, n = i * 7 + 1, [0, 1, 1000, 70000, 200001][i % 5]
        if i % 3 == 1:
            lines.append("0 g:%d:%d %s err" % (seed + 1000, 100000, "65536,1000"))      # a reader that fails after 66 536 bytes
        lines.append("0 g:%d:%d -" % (seed, n))
    p = subprocess.run([h, "sum"], input=("\n".join(lines) + "\n").encode(), stdout=subprocess.PIPE, stderr=subprocess.PIPE, timeout=600)
    out = p.stdout.decode().split("\n")[:-1]
    p2 = subprocess.run([h, "sum"], input=("\n".join(l for l in lines if not l.endswith("err")) + "\n").encode(), stdout=subprocess.PIPE, stderr=subprocess.PIPE, timeout=600)
    clean = p2.stdout.decode().split("\n")[:-1]
    got = [o for l, o in zip(lines, out) if not l.endswith("err")]
    R.count("hasher-history", True)
    bad = [(l, a, b) for l, a, b in zip([l for l in lines if not l.endswith("err")], got, clean) if a != b]
    if bad or len(got) != len(clean):
        R.violation(dict(kind="property-violated-on-implementation", scenario="checksum.Checksum after a failed read in the same process",
                         violations=["the checksum of `%s` is %s after an earlier computation failed half-way, %s in a process where nothing failed" % b_ for b_ in bad[:3]]))


def groups(R, dud, drv, rng, tier, runs):
    hasher_history(R)
    """cross-history part: same final tree => same recorded checksums; one object per distinct content"""
    by = {}
    for r in runs:
        by.setdefault(r["case"]["group"], []).append(r)
    seen_sums = {}
    for g, rs in by.items():
        sums = {}
        for r in rs:
            if r["error"] or not r["steps"] or r["steps"][-1]["rc"] != 0:
                continue
            last = r["steps"][-1]["snap"]
            rec = tuple(sorted((p_, s_) for p_, s_ in s1eval.recorded(last).items() if not p_.startswith(b"dummy_")))
            sums.setdefault(rec, []).append(r["case"]["how"] + "/" + r["case"]["cache"])
            # dedupe: blobs in the cache reachable from the final checksums = distinct file contents
            reach = set()
            skipped = set(a for a, fl, sp in s1eval.artifacts(r["case"]) if "s" in fl)
            for p, d in s1eval.recorded(last).items():
                if p not in skipped:
                    reach |= s1eval.reachable(last, d)
            in_cache = set(n_ for n_, d_, m_ in last["cache"])
            blobs = [d for d in reach if d not in last["manifests"] and d in in_cache]
            ws = s1eval.logical(last)
            roots = [a for a, fl, sp in s1eval.artifacts(r["case"]) if "s" not in fl] + list(r["case"].get("moved_to_input", []))
            contents = set(x[1] for p, x in ws.items() if x[0] == "f" and any(p == a or p.startswith(a + b"/") for a in roots))
            if len(set(blobs)) > len(contents):
                R.violation(dict(kind="property-violated-on-implementation", case=s1eval.case_json(r["case"]),
                                 violations=["%d file objects are reachable for %d distinct file contents" % (len(set(blobs)), len(contents))]))
        R.count("group-" + g, len(sums) >= 1 and sum(len(x) for x in sums.values()) >= 2)
        if len(sums) > 1:
            R.violation(dict(kind="property-violated-on-implementation", group=g,
                             cases=[s1eval.case_json(r["case"]) for r in rs][:4],
                             violations=["the same final tree got different checksums depending on history/configuration: %s" % [
                                 (hows, [s for p, s in rec][:2]) for rec, hows in sums.items()]]))
        for rec in sums:
            top = tuple(s for p, s in rec)
            if top in seen_sums and seen_sums[top] != g:
                pass            # equal trees may legitimately be generated twice
            seen_sums[top] = g


def main(tier, replay=None):
    return s1eval.generic_main(PROP, tier, replay, make_cases, oracle, finding_of,
                               nontrivial=lambda run: run["case"]["how"] != "scratch",
                               rule="S1: for each generated tree six histories reaching the same final content (from scratch; other creation order "
                                    "and cache placement; incremental recommits over older versions; an entry that changed type between commits; copies committed, extended in place and recommitted; the directory declared as an input instead of an output) under "
                                    "link/copy, three cache placements and worker-pool sizes {default, 0+1, 2+2}; oracle: identical recorded checksums "
                                    "within a group, one file object per distinct content; non-trivial = history is not a plain from-scratch commit",
                               seed_salt=16, n_quick=150, n_thorough=1800, extra=groups)
