"""C11 — push then fetch transfers everything checkout needs."""
import vlib, s1, gen, s1eval

PROP = "C11"


def make_cases(rng, tier, n):
    cases, stats = [], {}
    for i in range(n):
        if i % 20 == 7:
            # a stage reading a file two and three levels below another stage's recursive directory output, pushed / fetched / pulled
            # through the consumer alone: the producer is upstream of it at any depth
            k3 = (i // 20) % 2 == 0
            deep = b"out/d0/sub/deep/h" if k3 else b"out/d0/sub/g"
            c = dict(id="pf-%d" % i, ops=[], cache=rng.choice(["rel", "abs"]), cyclic=False, nested=True, kinds=["dir", "file", "file"],
                     edges=[(0, 1), (1, 2)],
                     init=[("file", b"src/s0.txt", "g:%d:9" % rng.randrange(1000))],
                     stages=[(b"st0.yaml", dict(cmd=b"vcmd S0 out/d0/ -- src/s0.txt", wd=b".", out=[(b"out/d0", "d")], **{"in": [(b"src/s0.txt", "")]})),
                             (b"st1.yaml", dict(cmd=b"vcmd S1 out/o1.txt -- " + deep, wd=b".", out=[(b"out/o1.txt", "")], **{"in": [(deep, "")]})),
                             (b"st2.yaml", dict(cmd=b"vcmd S2 out/o2.txt -- out/o1.txt", wd=b".", out=[(b"out/o2.txt", "")], **{"in": [(b"out/o1.txt", "")]}))])
            tg = [[b"st1.yaml"], [b"st2.yaml"]][(i // 40) % 2]
            ops = [("run", False, []), ("commit", rng.choice("lc"), []), ("push", False, tg), ("wipecache",)]
            if (i // 20) % 3 == 1:
                ops += [("clone", []), ("pull", rng.choice("lc"), False, tg), ("status", tg)]
            else:
                ops += [("fetch", False, tg), ("clone", []), ("checkout", rng.choice("lc"), False, tg), ("status", tg)]
            c["ops"] = ops
            c["flow"] = "deep_input_single"
            stats["flow_deep_input_single"] = stats.get("flow_deep_input_single", 0) + 1
            cases.append(c)
            continue
        pipe = rng.random() < 0.3 or i % 10 == 4
        if pipe:
            c = gen.pipeline_project(rng, "pf-%d" % i, rng.choice([2, 3]), tier=tier, sink=(rng.random() < 0.5 or i % 10 == 4))
            ops = [("run", False, []), ("commit", rng.choice("lc"), [])]
            names = [sp for sp, st in c["stages"]]
        else:
            c = gen.basic_project(rng, "pf-%d" % i, tier, stats=stats, allow_inputs=False, wide=(i % 12 == 5))
            # identical bytes in an artifact that is never cached (skip-cache) and in a file nested in a directory output
            skips = [p for p, fl, sp in s1eval.artifacts(c) if fl == "s"]
            nested = [k for k, e in enumerate(c["init"]) if e[0] == "file" and any(e[1].startswith(p + b"/") for p, fl, sp in s1eval.artifacts(c) if fl == "d")]
            if skips and nested and rng.random() < 0.5:
                spec = [e for e in c["init"] if e[1] == skips[0]][0][2]
                k = rng.choice(nested)
                c["init"][k] = ("file", c["init"][k][1], spec)
                stats["skip_twin"] = stats.get("skip_twin", 0) + 1
            ops = [("commit", rng.choice("lc"), [])]
            names = [sp for sp, st in c["stages"]]
        keep = [b"workdir", b"workdir/inner"] if c.get("cwd") else []
        if not pipe and i % 20 == 15:
            # a directory with MANY sub-directories on one level (32, 33, 40, 70), each holding a file of its own
            d0 = [a for a in s1eval.artifacts(c) if a[1] == "d"]
            if not d0:
                c["init"].append(("dir", b"fan"))
                c["stages"].append((b"fan.yaml", dict(cmd=b"", wd=b".", out=[(b"fan", "d")])))
                d0 = [(b"fan", "d", b"fan.yaml")]
                names = [sp for sp, st in c["stages"]]
            nsub = [32, 33, 40, 70][(i // 20) % 4]
            for j in range(nsub):
                c["init"] += [("dir", d0[0][0] + b"/fan%02d" % j), ("file", d0[0][0] + b"/fan%02d/u.bin" % j, "g:%d:%d" % (300000 + 100 * i + j, 9 + j % 5))]
            c["ops"] = [("commit", rng.choice("lc"), []), ("push", False, []), ("wipecache",), ("fetch", False, []), ("clone", keep),
                        ("checkout", rng.choice("lc"), False, []), ("status", [])]
            c["flow"] = "many_subdirs"
            stats["flow_many_subdirs"] = stats.get("flow_many_subdirs", 0) + 1
            cases.append(c)
            continue
        if not pipe and i % 20 == 11:
            # a cache written by an early dud (untagged manifest schema) with directories nested in directories, each level holding a
            # file of its own: pushed, lost, fetched, checked out
            d0 = [a for a in s1eval.artifacts(c) if a[1] == "d"]
            if not d0:
                c["init"].append(("dir", b"olddata"))
                c["stages"].append((b"olddata.yaml", dict(cmd=b"", wd=b".", out=[(b"olddata", "d")])))
                d0 = [(b"olddata", "d", b"olddata.yaml")]
                names = [sp for sp, st in c["stages"]]
            base = d0[0][0]
            for lvl, sub in enumerate([b"/n1", b"/n1/n2", b"/n1/n2/n3", b"/m1"]):
                if not any(e[1] == base + sub for e in c["init"]):
                    c["init"].append(("dir", base + sub))
                c["init"].append(("file", base + sub + b"/only%d.bin" % lvl, "g:%d:%d" % (rng.randrange(100000, 200000), 11 + lvl)))
            sel = rng.choice([None, "01234567", "89abcdef"])
            ops = [("commit", rng.choice("lc"), []), ("oldschema",) if sel is None else ("oldschema", sel), ("push", False, []), ("wipecache",),
                   ("fetch", False, []), ("clone", keep), ("checkout", rng.choice("lc"), False, []), ("status", [])]
            c["ops"] = ops
            c["flow"] = "old_schema_nested"
            stats["flow_old_schema_nested"] = stats.get("flow_old_schema_nested", 0) + 1
            cases.append(c)
            continue
        flow = rng.choice(["wipe", "wipe", "partial", "push_missing", "prepresent", "single"])
        if i % 10 == 4:
            flow = "single"          # every tenth case: a pipeline pushed / fetched through one named stage
        tg = []
        single = False
        if flow == "single" and len(names) > 1:
            tg = [rng.choice(names)]
            single = rng.random() < 0.5
            if pipe and c["kinds"][-1] == "sink" and (rng.random() < 0.7 or i % 10 == 4):
                tg = [names[-1]]          # only the leaf that has nothing to cache itself is named: everything upstream is in scope
                if i % 10 == 4:
                    single = False
        widefiles = sorted(e[1] for e in c["init"] if e[0] == "file" and b"/wide" in e[1])
        if widefiles and i % 24 == 5:
            # a directory with more plain files than any worker pool; the object of ONE of them (early, middle or late in the
            # listing) is missing locally: push must fail rather than leave a hole on the remote
            ops += [("rmobj", "p" + widefiles[rng.choice([0, len(widefiles) // 2, len(widefiles) - 1])].hex()), ("push", False, [])]
            flow = "push_missing_wide"
        elif flow == "push_missing":
            ops += [("rmobj", rng.randrange(100)), ("push", False, [])]
        else:
            if flow == "prepresent":
                ops += [("push", False, [rng.choice(names)])]          # part of it is already on the remote
                if [e for e in c["init"] if e[0] == "file"] and not pipe:
                    f = rng.choice([e for e in c["init"] if e[0] == "file"])
                    ops += [("write", f[1], "g:%d:33" % rng.randrange(100)), ("commit", "l", [])]
            ops.append(("push", single, tg))
            if flow == "partial":
                for _ in range(rng.randrange(1, 4)):
                    ops.append(("rmobj", rng.randrange(100)))
            else:
                ops.append(("wipecache",))
            if i % 5 == 3:
                # `dud pull` = fetch + checkout in one command, with the same (explicit or absent) arguments
                ops += [("clone", keep), ("pull", rng.choice("lc"), single, tg if tg else ([rng.choice(names)] if rng.random() < 0.5 else [])), ("status", tg)]
            else:
                ops += [("fetch", single, tg), ("clone", keep), ("checkout", rng.choice("lc"), single, tg), ("status", tg)]
        c["ops"] = ops
        c["flow"] = flow
        stats["flow_" + flow] = stats.get("flow_" + flow, 0) + 1
        cases.append(c)
    return cases, stats


def oracle(run):
    case = run["case"]
    steps = run["steps"]
    v = []
    committed = None
    rec_at_commit = None
    for k, st in enumerate(steps):
        op = st["op"]
        if op[0] == "commit" and st["rc"] == 0:
            committed = st["snap"]
            rec_at_commit = s1eval.recorded(st["snap"])
        if op[0] == "push" and committed is not None:
            prev = steps[k - 1]["snap"] if k else run["initial"]
            # closure of the pushed stages' outputs in the cache as it was before the push
            scope = stage_scope(case, op[2], op[1])
            need = set()
            missing_local = False
            have = set(n_ for n_, d_, m_ in prev["cache"])
            for sp, stg in case["stages"]:
                if sp not in scope:
                    continue
                for p, fl in stg.get("out", []):
                    if "s" in fl:
                        continue
                    d = s1eval.recorded(prev).get(p)
                    if not d or d == "-":
                        continue
                    cl = closure(committed, prev, d)
                    need |= cl
                    if not cl <= have:
                        missing_local = True
            if st["rc"] == 0:
                if missing_local:
                    v.append(("push-ok-missing", "`dud push` exited 0 although a reachable object is absent from the local cache"))
                lack = need - set(st["snap"]["remote"])
                if lack and not missing_local:
                    v.append(("push-incomplete", "after a successful push the remote lacks %d reachable object(s), e.g. %s" % (len(lack), sorted(lack)[:2])))
            elif not missing_local:
                v.append(("push-failed", "`dud push` failed although every reachable object is present: %s" % st["stderr"][-160:]))
        if op[0] == "fetch" and st["rc"] == 0:
            for name, dg, mode in st["snap"]["cache"]:
                if mode != 0o444:
                    v.append(("fetched-mode", "object %s has mode %o after fetch" % (name, mode)))
                    break
        if op[0] == "checkout" and committed is not None and case["flow"] != "push_missing":
            if st["rc"] != 0:
                v.append(("checkout-failed", "checkout after a successful fetch failed: %s" % st["stderr"][-160:]))
            else:
                scope = stage_scope(case, op[3], op[2])
                for sp, stg in case["stages"]:
                    if sp not in scope:
                        continue
                    for p, fl in stg.get("out", []):
                        if "s" in fl:
                            continue
                        want = s1eval.logical(committed, under=p, skip_dirs_top=("r" in fl))
                        got = s1eval.logical(st["snap"], under=p, skip_dirs_top=("r" in fl))
                        if want != got:
                            v.append(("tree-differs", "artifact %s not reproduced after wipe+fetch+checkout" % p.decode()))
    return v


def closure(committed, prev, d):
    # manifests may have been removed from `prev` by the harness: use whichever snapshot still has them
    man = dict(committed["manifests"])
    man.update(prev["manifests"])
    seen = set()
    todo = [d]
    while todo:
        x = todo.pop()
        if x in seen or not x or x == "-":
            continue
        seen.add(x)
        for cs, isdir in man.get(x, []):
            todo.append(cs)
    return seen


def stage_scope(case, targets, single):
    names = [sp for sp, st in case["stages"]]
    if not targets:
        return set(names)
    if single:
        return set(targets)
    # upstream closure via exact/nested ownership of inputs
    outs = {}
    for sp, st in case["stages"]:
        for p, fl in st.get("out", []):
            outs[p] = sp
    scope = set(targets)
    todo = list(targets)
    while todo:
        x = todo.pop()
        st = dict(case["stages"])[x]
        for p, fl in st.get("in", []):
            for op_, osp in outs.items():
                if p == op_ or p.startswith(op_ + b"/"):
                    if osp not in scope:
                        scope.add(osp)
                        todo.append(osp)
    return scope


def main(tier, replay=None):
    return s1eval.generic_main(PROP, tier, replay, make_cases, oracle, None,
                               nontrivial=lambda run: any(st["snap"]["manifests"] and any(any(isd for cs, isd in kids) for kids in st["snap"]["manifests"].values()) for st in run["steps"][:2]),
                               rule="S1 with the rclone stand-in: committed trees and small pipelines, push (whole index, subsets, --single-stage, part already "
                                    "present remotely), then wipe or remove arbitrary objects, fetch, fresh checkout; push with a reachable object removed "
                                    "locally must fail; oracle: remote holds the reachable closure, checkout reproduces the committed trees, fetched objects "
                                    "are 0444; non-trivial = a nested manifest is involved", trusted=["tools/rclone stands in for rclone (copy --files-from, immutable, size-only)"],
                               seed_salt=11, n_quick=100, n_thorough=1200)
