"""C05 — status tells the truth about every artifact."""
import vlib, s1, gen, s1eval

PROP = "C05"
EDITS = ["none", "deldir", "flip", "truncate", "append", "addfile", "adddir", "delete", "rename", "relink", "dangle", "swap_f2d",
         "swap_d2f", "below_norec", "uncopy", "rmobj", "rmart", "checkout_other", "lookalike", "movecache", "rmman", "emptied_rmman",
         "uncommitted", "same_size_old_mtime", "same_size_old_mtime", "rmobj_of_copy", "rmobj_of_copy", "dir_to_outside_link", "dir_to_outside_link",
         "emptied_damaged_man", "emptied_damaged_man", "commit_through_dirlink", "commit_through_dirlink"]
NFC, NFD = "caf\u00e9".encode(), "cafe\u0301".encode()


def make_cases(rng, tier, n):
    cases, stats = [], {}
    for i in range(n):
        if i % 14 == 9:
            # "right after a successful commit every artifact is reported up-to-date", for a pipeline committed through ONE named stage
            # (everything upstream is committed by recursion) after upstream data changed
            c = gen.pipeline_project(rng, "st-%d" % i, rng.choice([2, 3]), tier="quick")
            names = [sp for sp, st in c["stages"]]
            srcs = [e for e in c["init"] if e[0] == "file"]
            ops = [("run", False, []), ("commit", rng.choice("lc"), [names[-1]]), ("status", [])]
            if srcs:
                ops += [("write", srcs[0][1], "g:%d:9" % rng.randrange(5000, 6000)), ("run", False, []), ("commit", rng.choice("lc"), [names[-1]]), ("status", [])]
            c["ops"] = ops
            c["edit"] = "pipeline-targeted-commit"
            c["shared_in"] = None
            stats["edit_pipeline-targeted-commit"] = stats.get("edit_pipeline-targeted-commit", 0) + 1
            cases.append(c)
            continue
        c = gen.basic_project(rng, "st-%d" % i, tier, stats=stats)
        if rng.random() < 0.25:
            # a directory artifact that is empty (its manifest has no entries)
            c["init"].append(("dir", b"emptyart"))
            c["stages"].append((b"empty.yaml", dict(cmd=b"", wd=b".", out=[(b"emptyart", "d")])))
        shared_in = None
        if len(c["stages"]) >= 2 and rng.random() < 0.3:
            # one plain input listed by two stages; each stage records its own checksum for it
            shared_in = b"src/shared.txt"
            c["init"].append(("file", shared_in, "g:%d:12" % rng.randrange(1000)))
            for sp_, st_ in c["stages"][:2]:
                st_.setdefault("in", []).append((shared_in, ""))
        if i % 14 == 4:
            # sub-directories and files whose names CONTAIN the field names of the manifest schemas (old and new)
            d0 = [a for a in s1eval.artifacts(c) if a[1] == "d"]
            if d0:
                for nm in (b"IsDirty", b"IsDir", b"my-Checksum-s", b"SkipCachePath", b"Contents", b"is-dir.d", b'"IsDir":true'):
                    if not any(e[1] == d0[0][0] + b"/" + nm for e in c["init"]):
                        c["init"].append(("dir", d0[0][0] + b"/" + nm))
                        c["init"].append(("file", d0[0][0] + b"/" + nm + b"/inner.txt", "g:%d:%d" % (rng.randrange(1000), rng.choice([0, 7, 300]))))
                        c["init"].append(("file", d0[0][0] + b"/" + nm + b".IsDir.txt", "g:%d:4" % rng.randrange(1000)))
                stats["schema_field_names"] = stats.get("schema_field_names", 0) + 1
        forced = None
        d1_ = [a for a in s1eval.artifacts(c) if a[1] == "d"]
        if i % 14 == 11 and d1_:
            # a tracked name in composed form; later a sibling appears whose name is the same text in DECOMPOSED form (another name)
            c["init"] += [("file", d1_[0][0] + b"/" + NFC + b".txt", "g:%d:9" % rng.randrange(1000)), ("dir", d1_[0][0] + b"/" + NFD + b"_dir"),
                          ("file", d1_[0][0] + b"/" + NFD + b"_dir/in.txt", "g:%d:4" % rng.randrange(1000))]
            forced = "nfd_twin"
        if i % 14 == 13 and d1_:
            # many regular COPIES in one directory (more than the workers), one long file modified near its end, the others short
            for j in range(90):
                c["init"].append(("file", d1_[0][0] + b"/cp%03d.dat" % j, "g:%d:%d" % (40000 + j, 5 + j % 40)))
            c["init"].append(("file", d1_[0][0] + b"/cp_long.dat", "g:77:200000"))
            forced = "long_copy_modified"
        strat = rng.choice("lc")
        arts = s1eval.artifacts(c)
        files = [e for e in c["init"] if e[0] == "file"]
        dirs_in = [e for e in c["init"] if e[0] == "dir" and any(e[1].startswith(p + b"/") for p, fl, sp in arts if "d" in fl)]
        dart = [a for a in arts if "d" in a[1]]
        edit = rng.choice(EDITS)
        if forced:
            edit = forced
            if forced == "long_copy_modified":
                strat = "c"
        ops = [("commit", strat, []), ("status", [])]
        e = None
        def size_of(spec):
            return int(spec.split(":")[2])
        if edit == "flip" and files:
            f = rng.choice(files)
            ops.append(("write", f[1], "g:%d:%d" % (int(f[2].split(":")[1]) + 1, size_of(f[2]))))
        elif edit == "truncate" and files:
            f = rng.choice(files)
            ops.append(("write", f[1], "g:%s:%d" % (f[2].split(":")[1], max(0, size_of(f[2]) - 1))))
        elif edit == "append" and files:
            f = rng.choice(files)
            ops.append(("write", f[1], "g:%s:%d" % (f[2].split(":")[1], size_of(f[2]) + 1)))
        elif edit == "addfile" and dart:
            ops.append(("write", rng.choice(dart)[0] + b"/zz_new.bin", "g:7:%d" % rng.choice([0, 5])))
        elif edit == "adddir" and dart:
            ops.append(("mkdir", rng.choice(dart)[0] + b"/zz_newdir"))
        elif edit == "deldir" and dirs_in:
            ops.append(("rm", rng.choice(dirs_in)[1]))
        elif edit == "delete" and files:
            ops.append(("rm", rng.choice(files)[1]))
        elif edit == "rename" and files:
            f = rng.choice(files)
            ops += [("rm", f[1]), ("write", f[1] + b".renamed", f[2])]
        elif edit == "relink" and files:
            ops.append(("relink", rng.choice(files)[1], rng.randrange(50)))
        elif edit == "dangle" and files:
            ops.append(("flink", rng.choice(files)[1], rng.randrange(2)))
        elif edit == "swap_f2d" and files:
            ops.append(("mkdir", rng.choice(files)[1]))
        elif edit == "swap_d2f" and dirs_in:
            ops.append(("write", rng.choice(dirs_in)[1], "g:9:3"))
        elif edit == "below_norec":
            nr = [a for a in arts if "r" in a[1]]
            sub = [d for d in dirs_in if nr and d[1].startswith(nr[0][0] + b"/") and d[1].count(b"/") == nr[0][0].count(b"/") + 1]
            if sub:
                ops.append(("write", sub[0][1] + b"/below.txt", "g:3:4"))
            else:
                edit = "none"
        elif edit == "uncopy" and files and strat == "l":
            tracked = [f for f in files if any(f[1] == p or f[1].startswith(p + b"/") for p, fl, sp in arts if "s" not in fl and "r" not in fl)]
            if tracked:
                ops.append(("uncopy", rng.choice(tracked)[1]))
            else:
                edit = "none"
        elif edit in ("same_size_old_mtime", "rmobj_of_copy") and files:
            # the workspace entry is a regular COPY of the committed bytes (copy strategy, or a link replaced by a copy) and then
            #  - is replaced by other bytes of exactly the same size carrying an old timestamp (mv of an older version, cp -p, rsync -t), or
            #  - loses its object in the cache (pruned / partly lost cache) while the manifest stays
            tracked = [f for f in files if any(f[1] == p or f[1].startswith(p + b"/") for p, fl, sp in arts if "s" not in fl and "r" not in fl)
                       and (edit == "rmobj_of_copy" or size_of(f[2]) > 0)]
            if tracked:
                f = rng.choice(tracked)
                if strat == "l":
                    ops.append(("uncopy", f[1]))
                    if rng.random() < 0.5:
                        ops.append(("status", []))
                if edit == "same_size_old_mtime":
                    ops.append(("writeold", f[1], "g:%d:%d" % (int(f[2].split(":")[1]) + 1 + rng.randrange(5), size_of(f[2]))))
                else:
                    ops.append(("rmobj", "p" + f[1].hex()))
            else:
                edit = "none"
        elif edit == "dir_to_outside_link" and (dirs_in or dart):
            # a committed directory (the artifact itself or a sub-directory) is replaced by a symbolic link to a directory OUTSIDE the
            # project that holds the same names and bytes: the entry is a link now, not the committed directory
            pool_ = [d[1] for d in dirs_in] + [a[0] for a in dart if "r" not in a[1]] * 2
            tgt = rng.choice(pool_) if pool_ else None
            if tgt and not any("r" in a[1] and tgt.startswith(a[0] + b"/") for a in dart):
                ops.append(("dirlink", tgt))
            else:
                edit = "none"
        elif edit == "nfd_twin":
            tw = rng.choice(["file", "dir", "both"])
            if tw in ("file", "both"):
                ops.append(("write", d1_[0][0] + b"/" + NFD + b".txt", "g:%d:9" % rng.randrange(2000, 3000)))
            if tw in ("dir", "both"):
                ops += [("mkdir", d1_[0][0] + b"/" + NFC + b"_dir"), ("write", d1_[0][0] + b"/" + NFC + b"_dir/in.txt", "g:5:4")]
        elif edit == "long_copy_modified":
            # the last bytes of the long file change (same length): that file is stale, every short one stays up to date
            ops.append(("write", d1_[0][0] + b"/cp_long.dat", "t:77:200000:10"))
        elif edit == "commit_through_dirlink" and dart:
            # a committed directory artifact is replaced by a symbolic link to a directory elsewhere holding the same names and bytes
            # (or other data), and `dud commit` is run again: whatever commit answers, a commit that SUCCEEDS leaves every artifact
            # up to date
            cand_ = [a for a in dart if "r" not in a[1]]
            if cand_:
                a_ = rng.choice(cand_)[0]
                ops += [("dirlink", a_) if rng.random() < 0.6 else ("fdirlink", a_), ("commit", rng.choice("lc"), []), ("status", [])]
            else:
                edit = "none"
        elif edit == "lookalike" and files and strat == "l":
            tracked = [f for f in files if any(f[1] == p or f[1].startswith(p + b"/") for p, fl, sp in arts if "s" not in fl and "r" not in fl)]
            if tracked:
                ops.append(("lookalike", rng.choice(tracked)[1]))
            else:
                edit = "none"
        elif edit == "movecache" and c.get("cache") != "shm":
            ops.append(("movecache",))
        elif edit == "rmobj":
            ops.append(("rmobj", rng.randrange(50)))
        elif edit == "rmman" and dart:
            ops.append(("rmobj", "m%d" % rng.randrange(50)))
        elif edit == "emptied_rmman" and dart:
            # the workspace directory ends up empty and a manifest is gone from the cache
            a = rng.choice(dart)[0]
            ops += [("rm", a), ("mkdir", a), ("rmobj", "m%d" % rng.randrange(50))]
        elif edit == "emptied_damaged_man" and (dart or dirs_in):
            # a committed directory (the artifact or a sub-directory) is empty now and a manifest object is damaged (truncated /
            # half-written): whatever status can still say, not "up to date"
            a = rng.choice(([x[0] for x in dart if "r" not in x[1]] + [d[1] for d in dirs_in]) or [(dart or dirs_in)[0][0 if dart else 1]])
            ops += [("rm", a), ("mkdir", a), ("corrupt", "m%d" % rng.randrange(50), rng.choice(["g:5:33", "g:5:0", "g:6:1"]))]
        elif edit == "uncommitted":
            ops = []
        elif edit == "rmart" and arts:
            ops.append(("rm", rng.choice(arts)[0]))
        elif edit == "checkout_other":
            ops += [("clone", [b"workdir", b"workdir/inner"] if c.get("cwd") else []), ("checkout", rng.choice("lc"), False, [])]
        else:
            edit = "none"
        if i % 14 == 4 and edit == "none":
            edit = "checkout_other"
            ops += [("clone", [b"workdir", b"workdir/inner"] if c.get("cwd") else []), ("checkout", rng.choice("lc"), False, [])]
        c["shared_in"] = shared_in
        if shared_in and ops and edit == "none":
            # the input changes and only ONE of the two stages is committed again (or the old version comes back)
            ops += [("write", shared_in, "g:%d:12" % rng.randrange(2000, 3000)), ("commit", strat, [c["stages"][rng.randrange(2)][0]])]
        ops.append(("status", []))
        c["ops"] = ops
        c["edit"] = edit
        stats["edit_" + edit] = stats.get("edit_" + edit, 0) + 1
        cases.append(c)
    return cases, stats


def expected(run, step_commit, step_now):
    """independent verdict per artifact: up-to-date iff logical content equals the committed one and
    everything it needs is in the cache (skip-cache / plain inputs: digest equals the recorded checksum)"""
    case = run["case"]
    out = {}
    now_ws, now_cache = s1eval.parse_snap(step_now["snap"])
    rec = {}
    for l in step_now["snap"]["lines"]:
        if l.startswith("s "):
            for t in l.split()[3:]:
                parts = t.split(":")
                rec[s1.unhx(parts[1])] = parts[2]
    for sp, st in case["stages"]:
        for p, fl in st.get("out", []) + [(q, f + "s") for q, f in st.get("in", [])]:
            if p == case.get("shared_in"):
                continue            # listed by two stages with possibly different checksums: see plain_input_verdicts
            if "s" in fl:
                v = now_ws.get(p)
                if v is not None and v[0] == "lo" and now_cache.get(v[1]) == rec.get(p):
                    # a skip-cache artifact / plain input replaced by a link to a cache object with exactly the recorded bytes:
                    # "a link counts as the object it points to" says up to date, "incorrect file type" says not; the statement
                    # does not decide this corner (--debug and the human output answer differently) — no verdict
                    out[p] = None
                    continue
                out[p] = (v is not None and v[0] == "f" and v[1] == rec.get(p))
                continue
            want = s1eval.logical(step_commit["snap"], under=p, skip_dirs_top=("r" in fl))
            got = s1eval.logical(step_now["snap"], under=p, skip_dirs_top=("r" in fl))
            ok = want == got and bool(want)
            # every object the committed content needs must still be in the cache
            need = s1eval.reachable(step_commit["snap"], rec.get(p))
            ok = ok and need <= set(now_cache)
            out[p] = ok
    return out


UP = ("up-to-date", "up-to-date (link)", "up-to-date (not cached)")


def human_uptodate(text):
    if text in UP:
        return True
    if "x " in text:
        for part in text.split(", "):
            label = part.split("x ", 1)[1]
            if label not in UP + ("directory", "empty directory"):
                return False
        return True
    return False


EMPTY_MARK = "[the only stale nodes are directories status shows no entries for (deleted, never committed, or manifest not in the cache): rendered like up-to-date ones]"


def has_unbacked_empty_dir(tree):
    """some directory node without entries is stale"""
    if tree["isdir"] and not tree["kids"] and not tree["cm"]:
        return True
    return any(has_unbacked_empty_dir(k) for k in tree["kids"])


def only_unbacked_empty_dirs_stale(tree):
    """every stale leaf of the --debug tree is a directory node without entries"""
    if not tree["kids"]:
        return tree["cm"] or tree["isdir"]
    return all(only_unbacked_empty_dirs_stale(k) for k in tree["kids"])


def plain_input_verdicts(run, stat_steps):
    """per (stage, plain input): up to date iff the workspace file hashes to the checksum THIS stage recorded"""
    v = []
    case = run["case"]
    ins = set((sp, p) for sp, st in case["stages"] for p, fl in st.get("in", []) if "d" not in fl)
    for s in stat_steps:
        now_ws, _ = s1eval.parse_snap(s["snap"])
        rec = {}
        for l in s["snap"]["lines"]:
            if l.startswith("s "):
                toks = l.split()
                for t in toks[3:]:
                    parts = t.split(":")
                    if parts[0] == "i":
                        rec[(s1.unhx(toks[1]), s1.unhx(parts[1]))] = parts[2]
        for l in s["status"]:
            if not l.startswith("a "):
                continue
            _, sp, ap, text, tree = l.split(" ", 4)
            key = (s1.unhx(sp), s1.unhx(ap))
            if key not in ins or key not in rec:
                continue
            cur = now_ws.get(key[1])
            if cur is None or cur[0] != "f":
                continue
            want = cur[1] == rec[key]
            t = s1eval.parse_tree(tree)
            if t["cm"] != want:
                v.append(("debug", "status --debug says ContentsMatch=%s for input %s of stage %s; the file hashes to %s, the stage recorded %s" % (
                    t["cm"], key[1].decode(), key[0].decode(), cur[1][:12], rec[key][:12])))
            hu = human_uptodate(s1.unhx(text).decode("utf-8", "replace"))
            if hu != want:
                v.append(("human", "human status %r for input %s of stage %s; the file hashes to %s, the stage recorded %s" % (
                    s1.unhx(text).decode("utf-8", "replace"), key[1].decode(), key[0].decode(), cur[1][:12], rec[key][:12])))
    return v


def oracle(run):
    v = []
    steps = run["steps"]
    if not steps or steps[0]["rc"] != 0:
        return v
    if run["case"].get("edit") == "pipeline-targeted-commit":
        from C08 import upstream
        case = run["case"]
        names = [sp for sp, st in case["stages"]]
        for k, s in enumerate(steps):
            if s["op"][0] != "status" or s["rc"] != 0 or k == 0 or steps[k - 1]["op"][0] != "commit" or steps[k - 1]["rc"] != 0:
                continue
            tg = [names.index(t) for t in steps[k - 1]["op"][2]] if steps[k - 1]["op"][2] else list(range(len(names)))
            scope = upstream(case["edges"], tg)
            got = s1eval.status_of(s)
            for i_ in sorted(scope):
                for p, fl in case["stages"][i_][1].get("out", []):
                    if p in got and got[p]["stage"] == names[i_] and not (got[p]["tree"]["cm"] and human_uptodate(got[p]["text"])):
                        v.append(("debug", "right after a successful `%s` status reports output %s of stage %s (in its scope) as %r / ContentsMatch=%s" % (
                            s1.op_text(steps[k - 1]["op"]), p.decode(), names[i_].decode(), got[p]["text"], got[p]["tree"]["cm"])))
        return v
    if steps[0]["op"][0] != "commit":
        # nothing was ever committed: no artifact is up to date
        for s in [s for s in steps if s["op"][0] == "status" and s["rc"] == 0]:
            for p, st in s1eval.status_of(s).items():
                if st["tree"]["cm"]:
                    v.append(("debug", "nothing was committed, yet status --debug says ContentsMatch=True for %s (edit: uncommitted)" % p.decode()))
                if human_uptodate(st["text"]):
                    mark = EMPTY_MARK if has_unbacked_empty_dir(st["tree"]) and only_unbacked_empty_dirs_stale(st["tree"]) else ""
                    v.append(("human", "human status %r for %s although nothing was committed (edit: uncommitted) %s" % (st["text"], p.decode(), mark)))
        return v
    commit = steps[0]
    stat_steps = [s for s in steps if s["op"][0] == "status" and s["rc"] == 0]
    v += plain_input_verdicts(run, stat_steps)
    # "right after a successful commit every artifact is reported up-to-date" (the commit of everything, no targets)
    for k in range(1, len(steps)):
        s, pc = steps[k], steps[k - 1]
        if s["op"][0] == "status" and s["rc"] == 0 and not s["op"][1] and pc["op"][0] == "commit" and pc["rc"] == 0 and not pc["op"][2]:
            for p, st_ in s1eval.status_of(s).items():
                if not st_["tree"]["cm"]:
                    v.append(("debug", "right after a successful `%s` status --debug says ContentsMatch=False for %s (%r) (edit: %s)" % (
                        s1.op_text(pc["op"]), p.decode(), st_["text"], run["case"].get("edit"))))
    if run["case"].get("edit") == "commit_through_dirlink":
        return v          # (the artifact's state after the SECOND commit is what the clause above judges)
    for s in stat_steps:
        exp = expected(run, commit, s)
        got = s1eval.status_of(s)
        for p, want in exp.items():
            if p not in got or want is None:
                continue
            cm = got[p]["tree"]["cm"]
            if cm != want:
                v.append(("debug", "after `%s` status --debug says ContentsMatch=%s for %s, independent diff says %s (edit: %s)" % (
                    " ; ".join(s1.op_text(o) for o in run["case"]["ops"][1:-1])[:120], cm, p.decode(), want, run["case"].get("edit"))))
            hu = human_uptodate(got[p]["text"])
            if hu != want:
                mark = EMPTY_MARK if (hu and not cm and has_unbacked_empty_dir(got[p]["tree"]) and only_unbacked_empty_dirs_stale(got[p]["tree"])) else ""
                v.append(("human", "human status %r for %s, independent diff says up-to-date=%s (edit: %s) %s" % (
                    got[p]["text"], p.decode(), want, run["case"].get("edit"), mark)))
    return v


def finding_of(run, tag, text):
    case = run["case"]
    for f in vlib.load_findings():
        if f.get("property") != PROP:
            continue
        m = f.get("matcher")
        if m == "human-render-hides-directory-change" and tag == "human" and case.get("edit") in ("adddir", "deldir", "swap_d2f"):
            return f["id"], f["what"]
        if m == "human-render-empty-directory" and tag == "human" and text.endswith(EMPTY_MARK):
            return f["id"], f["what"]
    return None


def same_stream(R, dud, drv, rng, tier, runs):
    """fsutil.SameContents around its 8 MiB buffer, in-process, against byte equality; the Lean loop model on scaled-down analogues"""
    import subprocess
    h = vlib.build_harness("inproc")
    M = 8 << 20
    lines, want = [], []
    sizes = [0, 1, 1000, M - 1, M, M + 1] + ([2 * M - 1, 2 * M, 2 * M + 1, 3 * M + 5] if tier == "thorough" else [2 * M + 1])
    for la in sizes:
        for lb in {la, max(0, la - 1), la + 1, la + M}:
            lines.append("%d %d 7 -1" % (la, lb)); want.append("1" if la == lb else "0")
        for off in {0, la // 2, la - 1, M - 1, M, M + 1, la - M - 1}:
            if 0 <= off < la:
                lines.append("%d %d 7 %d" % (la, la, off)); want.append("0")
    p = subprocess.run([h, "same"], input=("\n".join(lines) + "\n").encode(), stdout=subprocess.PIPE, stderr=subprocess.PIPE, timeout=1200)
    got = p.stdout.decode().split()
    bad = [(l, g, w_) for l, g, w_ in zip(lines, got, want) if g != w_]
    for l in lines:
        R.count("same-" + l, True)
    if bad or len(got) != len(lines):
        R.violation(dict(kind="property-violated-on-implementation", scenario="fsutil.SameContents(lenA lenB seed flipOffset)",
                         violations=["%s: SameContents says %s, byte equality says %s" % b for b in bad[:6]] or ["harness produced %d of %d answers" % (len(got), len(lines))]))
    # the Lean loop model with small buffers (theorem sameContents_eq covers every B > 0; this is a sanity tie of the executable definition)
    ml, mw = [], []
    for B in (1, 2, 3, 8):
        for la in range(0, 2 * B + 3):
            a = bytes((i * 7 + 1) & 0xFF for i in range(la))
            for b in (a, a[:-1], a + b"\x00", a[:la // 2] + bytes([a[la // 2] ^ 1]) + a[la // 2 + 1:] if la else a, a + bytes(B)):
                ml.append("%d %s %s" % (B, a.hex() or "-", b.hex() or "-")); mw.append("1" if a == b else "0")
    p = subprocess.run([drv, "same"], input=("\n".join(ml) + "\n").encode(), stdout=subprocess.PIPE)
    mg = p.stdout.decode().split()
    if mg != mw:
        R.violation(dict(kind="model-implementation-disagreement", stream="Same", detail="the executable Lean loop disagrees with byte equality"), nofail=True)
    R.cov["same_contents_cases"] = len(lines)


def main(tier, replay=None):
    return s1eval.generic_main(PROP, tier, replay, make_cases, oracle, finding_of,
                               nontrivial=lambda run: run["case"].get("edit") != "none" or True,
                               rule="S1: committed trees x one edit out of %d kinds x strategy x cache placement; `dud status` text and --debug JSON "
                                    "compared per artifact with an independent diff of the workspace against the committed snapshot; "
                                    "non-trivial: every case (edit kind recorded in the distribution); distinct by case id" % len(EDITS),
                               trusted=["regular-file read semantics (min(B, remaining) bytes, EOF only with 0 bytes)"], seed_salt=5,
                               n_quick=150, n_thorough=2000, extra=same_stream)
