"""C03 — killing dud at any instant loses no data and tears no metadata."""
import json, os, random
import vlib, s1, s2, gen, s1eval

PROP = "C03"


def scenarios(rng, tier):
    out = []
    n = 14 if tier == "quick" else 76
    kinds = ["file-link", "file-copy", "dir-link", "dir-copy", "dir-recommit", "xdev-link", "checkout-link", "checkout-copy", "stage-add", "stage-remove",
             "dir-recommit", "stage-symlink", "artifact-xdev", "two-stages", "checkout-copy-tmp-sibling", "stage-add-many", "stage-remove-many",
             "big-link", "long-stage-name"]
    for i in range(n):
        kind = kinds[i % len(kinds)] if tier == "thorough" else ["dir-link", "dir-recommit", "xdev-link", "file-copy", "checkout-copy", "stage-add",
                                                                   "stage-symlink", "artifact-xdev", "two-stages", "checkout-copy-tmp-sibling",
                                                                   "stage-add-many", "big-link", "stage-remove-many", "long-stage-name"][i % 14]
        init = []
        stages = []
        if kind == "artifact-xdev":
            # the artifact lives below a mount point: same file system for project root and cache (the rename probe succeeds),
            # another one for the artifact (dud's commit fails with EXDEV there; what it leaves behind must be safe all the same)
            init = [("mount", b"mnt"), ("dir", b"mnt/tree"), ("file", b"mnt/tree/a.bin", "g:%d:300000" % rng.randrange(100)),
                    ("file", b"mnt/tree/b.bin", "g:%d:5" % rng.randrange(100))]
            stages = [(b"s.yaml", dict(cmd=b"", wd=b".", out=[(b"mnt/tree", "d")]))]
        elif kind == "two-stages":
            # two independent stages named on the command line: the stage file of the first is rewritten BEFORE the artifacts of
            # the second are committed (cmd/commit.go writes stage files after each target)
            init = [("file", b"one.bin", "g:%d:%d" % (rng.randrange(100), rng.choice([5, 70000]))), ("dir", b"tree"),
                    ("file", b"tree/x.bin", "g:%d:9" % rng.randrange(100)), ("file", b"tree/y.bin", "g:%d:300" % rng.randrange(100))]
            stages = [(b"s1.yaml", dict(cmd=b"", wd=b".", out=[(b"one.bin", "")])), (b"s2.yaml", dict(cmd=b"", wd=b".", out=[(b"tree", "d")]))]
        elif kind == "big-link":
            # files of several MiB (stand-alone and inside a directory), default link commit, cache on the same file system
            big = rng.choice([8 << 20, (8 << 20) + 1, 9 << 20])
            init = [("file", b"big.bin", "g:%d:%d" % (rng.randrange(100), big)), ("dir", b"tree"),
                    ("file", b"tree/large.bin", "g:%d:%d" % (rng.randrange(100), 8 << 20)), ("file", b"tree/small.bin", "g:%d:9" % rng.randrange(100))]
            stages = [(b"s1.yaml", dict(cmd=b"", wd=b".", out=[(b"big.bin", "")])), (b"s2.yaml", dict(cmd=b"", wd=b".", out=[(b"tree", "d")]))]
        elif kind == "long-stage-name":
            # a stage file whose name leaves no room for a suffix (NAME_MAX is 255): whatever commit does about its temp file, the
            # stage file is never torn
            nm = b"S" * rng.choice([247, 248, 250]) + b".yaml"
            init = [("file", b"data.bin", "g:%d:%d" % (rng.randrange(100), rng.choice([5, 70000])))]
            stages = [(nm, dict(cmd=b"", wd=b".", out=[(b"data.bin", "")]))]
        elif kind.startswith("file"):
            init = [("file", b"data.bin", "g:%d:%d" % (rng.randrange(100), rng.choice([0, 5, 70000])))]
            stages = [(b"s.yaml", dict(cmd=b"", wd=b".", out=[(b"data.bin", "")]))]
        else:
            init = [("dir", b"tree")]
            budget = [rng.choice([3, 6])]
            init += gen.gen_tree(rng, b"tree", 3, 4, budget, ["ascii"], [0, 4, 300, 66000], allow_empty=False)
            if not any(e[0] == "file" for e in init):
                init.append(("file", b"tree/x.bin", "g:3:9"))
            stages = [(b"s.yaml", dict(cmd=b"", wd=b".", out=[(b"tree", "d")]))]
        c = dict(id="%s-%d" % (kind, i), init=init, stages=stages, ops=[], cache="shm" if kind.startswith("xdev") else "rel", kind=kind)
        files = [e for e in init if e[0] == "file"]
        if kind == "dir-recommit":
            c["ops"] = [("commit", rng.choice("lc"), [])]
            f = rng.choice(files)
            c["ops"] += [("write", f[1], "g:%d:%d" % (rng.randrange(1000, 2000), rng.choice([1, 400]))), ("write", b"tree/added.bin", "g:7:33")]
            c["cmd"] = ["commit"] + ([] if rng.random() < 0.5 else ["--copy"])
        elif kind == "checkout-copy-tmp-sibling":
            # the project tracks X and a sibling whose NAME is X + a suffix a temp-file scheme would pick; the sibling is in the
            # workspace with uncommitted changes while X is checked out as a copy (the command may fail: the sibling is in the way of
            # its own entry; what matters is what a kill at any point leaves behind)
            f0 = files[0][1]
            sfx = rng.choice([b".tmp", b".tmp", b".part", b".new", b"~"])
            c["init"].append(("file", f0 + sfx, "g:%d:70" % rng.randrange(100)))
            c["ops"] = [("commit", "l", []), ("clone", []), ("write", f0 + sfx, "g:%d:55" % rng.randrange(200, 300))]
            c["cmd"] = ["checkout", "--copy"]
            c["may_fail"] = True
            c["no_trace"] = True
        elif kind.startswith("checkout"):
            c["ops"] = [("commit", rng.choice("lc"), []), ("clone", [])]
            c["cmd"] = ["checkout"] + (["--copy"] if kind.endswith("copy") else [])
        elif kind == "stage-add":
            init.append(("file", b"other.txt", "g:1:3"))
            c["ops"] = [("commit", "l", [])]
            c["extra_stage"] = (b"t.yaml", dict(cmd=b"", wd=b".", out=[(b"other.txt", "")]))
            c["cmd"] = ["stage", "add", "t.yaml"]
        elif kind == "stage-remove":
            c["ops"] = [("commit", "l", [])]
            c["cmd"] = ["stage", "remove", "s.yaml"]
        elif kind == "stage-add-many":
            # several stage files named in ONE `stage add`: the index is its previous or its new version, never something between
            c["extra_stages"] = []
            for j in range(rng.choice([2, 3])):
                init.append(("file", b"other%d.txt" % j, "g:%d:3" % j))
                c["extra_stages"].append((b"t%d.yaml" % j, dict(cmd=b"", wd=b".", out=[(b"other%d.txt" % j, "")])))
            c["ops"] = [("commit", "l", [])]
            c["cmd"] = ["stage", "add"] + [sp.decode() for sp, _ in c["extra_stages"]]
        elif kind == "stage-remove-many":
            for j in range(2):
                init.append(("file", b"other%d.txt" % j, "g:%d:3" % j))
                stages.append((b"t%d.yaml" % j, dict(cmd=b"", wd=b".", out=[(b"other%d.txt" % j, "")])))
            c["ops"] = [("commit", "l", [])]
            c["cmd"] = ["stage", "remove", "t0.yaml", "s.yaml", "t1.yaml"][:rng.choice([3, 4])]
        elif kind == "long-stage-name":
            c["cmd"] = ["commit"]
            c["may_fail"] = True
            c["no_trace"] = True
        elif kind == "big-link":
            # the stages are named: without targets dud visits them in Go map order, and the trace comparison is about one order
            order = [b"s1.yaml", b"s2.yaml"] if rng.random() < 0.5 else [b"s2.yaml", b"s1.yaml"]
            c["cmd"] = ["commit"] + [t.decode() for t in order]
            c["targets"] = order
        elif kind == "stage-symlink":
            c["symlink_stage"] = True            # s.yaml -> shared/s.yaml
            c["no_trace"] = True
            if rng.random() < 0.5:
                c["ops"] = [("commit", "l", []), ("write", files[0][1], "g:%d:44" % rng.randrange(3000, 4000))]
            c["cmd"] = ["commit"]
        elif kind == "two-stages":
            order = [b"s1.yaml", b"s2.yaml"] if rng.random() < 0.5 else [b"s2.yaml", b"s1.yaml"]
            c["cmd"] = ["commit"] + ([] if rng.random() < 0.6 else ["--copy"]) + [t.decode() for t in order]
            c["targets"] = order
        elif kind == "artifact-xdev":
            c["no_trace"] = True
            c["may_fail"] = True
            c["cmd"] = ["commit"]
        else:
            c["cmd"] = ["commit"] + (["--copy"] if kind.endswith("copy") else [])
        out.append(c)
    return out


def main(tier, replay=None):
    R = vlib.Result(PROP, tier)
    R.cov["rule"] = ("S2: scenarios {file/directory artifact, first commit / recommit over an old manifest, link/copy, rename-able / other-device cache, "
                     "checkout link/copy, stage add/remove}; the real binary runs under a ptrace stepper that numbers its file-system mutating calls; "
                     "the trace (one worker) is compared with the Lean model's trace, then the command is re-run and killed at the entry of the k-th "
                     "call for EVERY k, once with SIGKILL and once with a catchable signal (SIGTERM/SIGINT); oracle on each post-kill tree: every tracked byte string retrievable, no object under a wrong name, stage files "
                     "and index old-or-new; non-trivial = k strictly inside the operation")
    R.cov["checker_cmd"] = "cd lean && lake build DudModel.Props.C03 && lake env lean <audit file: #print axioms of every theorem>"
    R.cov["trusted_base"] = vlib.TRUSTED_COMMON + ["kernel: rename and O_EXCL are atomic; process kill, not power loss (page-cache durability not modelled)",
                                                   "tools/sysstep.c (ptrace) numbers openat/rename/unlink/mkdir/symlink/chmod/write calls of the dud process"]
    dud = vlib.build_dud()
    drv = vlib.build_driver()
    stepper = vlib.build_sysstep()
    rng = random.Random(vlib.seed() * 1000 + 3)
    b3 = s1.B3(drv)
    findings = [f for f in vlib.load_findings() if f.get("property") == PROP]
    total_k = 0
    try:
        for c in scenarios(rng, tier):
            sc = s2.Scenario(dud, c, b3)
            try:
                for sp, st in ([c["extra_stage"]] if "extra_stage" in c else []) + c.get("extra_stages", []):
                    sc.proj.write_stage(sp, st)
                    sc.proj.stage_paths.remove(sp)          # not in the index yet
                    sc.proj.stage_paths.append(sp)
                    sc.save()
                if c.get("symlink_stage"):
                    root = sc.proj.root
                    os.makedirs(os.path.join(root, "shared"), exist_ok=True)
                    os.rename(os.path.join(root, "s.yaml"), os.path.join(root, "shared", "s.yaml"))
                    os.symlink(os.path.join("shared", "s.yaml"), os.path.join(root, "s.yaml"))
                    sc.proj.stage_paths.append(b"shared/s.yaml")        # the same stage file seen through the link: metadata, not tracked data
                    sc.save()
                before = sc.snapshot()
                stage_old = {sp: (d[0] if d else None) for sp, d in before["stages"].items()}
                rc, raw, se = sc.run(stepper, c["cmd"])
                canon, outside = sc.canon(raw)
                clean = sc.snapshot()
                stage_new = {sp: (d[0] if d else None) for sp, d in clean["stages"].items()}
                n = len([l for l in raw if l.split("\t")[0].isdigit()])
                if rc != 0 and not c.get("may_fail"):
                    R.violation(dict(kind="harness-error", scenario=c["id"], detail="baseline command failed: %s" % se.decode(errors="replace")[-300:]), nofail=True)
                    continue
                # model trace (commit scenarios)
                if c["cmd"][0] == "commit" and not c.get("no_trace"):
                    can_rename = c["cache"] != "shm"
                    sc.restore()
                    orders = s2.listing_orders(sc.proj)
                    mt = s2.model_trace(drv, c, ("commit %s %d" % ("c" if "--copy" in c["cmd"] else "l", 1 if can_rename else 0)) +
                                        "".join(" " + s1.hx(t) for t in c.get("targets", [])), orders)
                    a, b = s2.renumber(canon), s2.renumber(mt or [])
                    if a != b:
                        import difflib
                        d = [l for l in difflib.unified_diff(b, a, "model", "implementation", lineterm="", n=1)][:30]
                        R.violation(dict(kind="model-implementation-disagreement", stream="S2-trace", scenario=c["id"], case=s1eval.case_json({k: v for k, v in c.items() if k not in ("extra_stage", "extra_stages")}), diff=d), nofail=True)
                    else:
                        R.cov["traces_validated_against_impl"] += 1
                # model trace (checkout scenarios): Sys.cmdCheckoutSegs
                if c["cmd"][0] == "checkout" and not c.get("no_trace"):
                    sc.restore()
                    orders = s2.listing_orders(sc.proj)
                    mt = s2.model_trace(drv, c, "checkout %s 0" % ("c" if "--copy" in c["cmd"] else "l"), orders)
                    # siblings of one manifest are handed out in Go map order (random): compared up to the order of siblings
                    a, b = s2.sibling_canon(s2.renumber(canon)), s2.sibling_canon(s2.renumber(mt or []))
                    if a != b:
                        import difflib
                        d = [l for l in difflib.unified_diff(b, a, "model", "implementation", lineterm="", n=1)][:30]
                        R.violation(dict(kind="model-implementation-disagreement", stream="S2-trace", scenario=c["id"], case=s1eval.case_json({k: v for k, v in c.items() if k not in ("extra_stage", "extra_stages")}), diff=d), nofail=True)
                    else:
                        R.cov["traces_validated_against_impl"] += 1
                if outside:
                    R.violation(dict(kind="property-violated-on-implementation", scenario=c["id"], violations=["mutating call outside project/cache/config: %s" % outside[:3]]))
                # kill at every k: SIGKILL, and a catchable termination signal (SIGTERM / SIGINT: `kill`, Ctrl-C, a batch system)
                kills = [(k, None) for k in range(1, n + 1)] + [(k, 15 if k % 2 else 2) for k in range(1, n + 1)]
                for k, sig in kills:
                    sc.restore()
                    rc2, raw2, se2 = sc.run(stepper, c["cmd"], kill=k, sig=sig)
                    after = sc.snapshot()
                    total_k += 1
                    R.count("%s@%d%s" % (c["id"], k, "" if sig is None else "/sig%d" % sig), 1 < k < n)
                    v = s2.crash_oracle(before, after, stage_old, stage_new, before["meta"], clean["meta"])
                    unknown = []
                    for tag, text in v:
                        kf = [f for f in findings if f.get("matcher") == "stage-file-or-index-rewritten-in-place" and tag in ("torn-stage-file", "torn-index")]
                        if kf:
                            R.known_finding(kf[0]["id"], kf[0]["what"])
                        else:
                            unknown.append(text)
                    if unknown:
                        R.violation(dict(kind="property-violated-on-implementation", scenario=c["id"], command=c["cmd"], kill_at=k, of=n,
                                         signal="SIGKILL" if sig is None else ("SIGTERM" if sig == 15 else "SIGINT"),
                                         trace=canon[max(0, k - 3):k + 1], violations=unknown[:4],
                                         case=s1eval.case_json({k_: v_ for k_, v_ in c.items() if k_ not in ("extra_stage", "extra_stages")})))
                        break
                R.sample(dict(scenario=c["id"], command=c["cmd"], calls=n, trace=canon[:12]), limit=3)
            finally:
                sc.cleanup()
    finally:
        b3.close()
    R.cov["kill_points"] = total_k
    R.absorb_audit(vlib.lean_audit(PROP))
    if tier == "thorough":
        ok, log = vlib.leanchecker(["DudModel.Props.C03"])
        if not ok:
            R.violation(dict(kind="leanchecker", detail=log), nofail=True)
    return R.finish()
