"""C06 — checkout never overwrites or deletes workspace data."""
import vlib, s1, gen, s1eval

PROP = "C06"
STATES = ["keep", "absent", "equal_copy", "different", "other_link", "dangling", "foreign", "dir_in_way", "extra", "fifo", "lexical_lookalike", "proper_prefix"]


def make_cases(rng, tier, n):
    cases, stats = [], {}
    for i in range(n):
        c = gen.basic_project(rng, "co-%d" % i, tier, stats=stats, allow_skip=False, allow_inputs=False)
        big = []
        if i % (40 if tier == "quick" else 120) == 8:
            # objects of tens of MiB (32 MiB and one byte more), stand-alone and inside a directory: whatever path such sizes take
            # through checkout, an entry in the way is neither followed nor truncated
            c["init"] += [("file", b"huge.bin", "g:%d:%d" % (rng.randrange(100), 1 << 25)), ("dir", b"hugedir"), ("dir", b"hugedir/sub"),
                          ("file", b"hugedir/sub/huge1.bin", "g:%d:%d" % (rng.randrange(100), (1 << 25) + 1)),
                          ("file", b"hugedir/small.bin", "g:%d:5" % rng.randrange(100))]
            c["stages"] += [(b"huge.yaml", dict(cmd=b"", wd=b".", out=[(b"huge.bin", "")])), (b"hugedir.yaml", dict(cmd=b"", wd=b".", out=[(b"hugedir", "d")]))]
            c["timeout"] = 240
            big = [b"huge.bin", b"hugedir/sub/huge1.bin"]
            stats["huge_objects"] = stats.get("huge_objects", 0) + 1
        dups = []
        if i % 40 == 18:
            # many entries with IDENTICAL content in one directory (they share one object): most stay correct links, some are replaced
            # by the user's own files
            c["init"] += [("dir", b"dupdir")] + [("file", b"dupdir/d%02d.bin" % j, "g:4242:%d" % (300 + i)) for j in range(24)]
            c["stages"].append((b"dupdir.yaml", dict(cmd=b"", wd=b".", out=[(b"dupdir", "d")])))
            dups = [b"dupdir/d%02d.bin" % j for j in range(24)]
            stats["many_duplicates"] = stats.get("many_duplicates", 0) + 1
        arts = s1eval.artifacts(c)
        files = [e for e in c["init"] if e[0] == "file" and any(e[1] == p or e[1].startswith(p + b"/") for p, fl, sp in arts)]
        dirs_in = [e for e in c["init"] if e[0] == "dir" and any(e[1].startswith(p + b"/") for p, fl, sp in arts if "d" in fl and "r" not in fl)]
        ops = [("commit", "l", [])]              # everything is a correct link now
        chosen = {}
        for f in files:
            st = rng.choice(STATES) if rng.random() < 0.5 else "keep"
            if f[1] in dups:
                st = "different" if dups.index(f[1]) in (5, 17, 23) else ("dir_in_way" if dups.index(f[1]) == 11 else "keep")
            if f[1] in big:
                st = ["different", "foreign", "dangling", "proper_prefix"][(i // 40 + big.index(f[1])) % 4]
            if any(f[1].startswith(d + b"/") for d in chosen if chosen[d] in ("file_in_way_dir",)):
                continue
            chosen[f[1]] = st
            stats["state_" + st] = stats.get("state_" + st, 0) + 1
            if st == "absent":
                ops.append(("rm", f[1]))
            elif st == "equal_copy":
                ops.append(("uncopy", f[1]))
            elif st == "different":
                ops.append(("write", f[1], "g:%d:%d" % (rng.randrange(5000, 6000), rng.choice([0, 3, 700]))))
            elif st == "other_link":
                ops.append(("relink", f[1], rng.randrange(50)))
            elif st == "dangling":
                ops.append(("flink", f[1], 0))
            elif st == "foreign":
                ops.append(("flink", f[1], 1))
            elif st == "proper_prefix":
                # a regular file holding a proper prefix of the committed bytes (what an interrupted copy leaves, or simply other data)
                sd_, n_ = f[2].split(":")[1:]
                if int(n_) >= 1:
                    ops.append(("write", f[1], "g:%s:%d" % (sd_, rng.choice([0, int(n_) // 2, int(n_) - 1]))))
                else:
                    ops.append(("write", f[1], "g:%d:3" % rng.randrange(5000, 6000)))
            elif st == "lexical_lookalike":
                # the link TEXT, cleaned lexically, is the path of the right cache object; the link itself resolves elsewhere
                # (a `..` after a symbolic link to a directory), i.e. it is a foreign, dangling link
                ops.append(("lexlink", f[1]))
            elif st == "dir_in_way":
                ops.append(("mkdir", f[1]))
            elif st == "fifo":
                ops.append(("fifo", f[1]))
            elif st == "extra":
                # an unrelated file next to the artifact, possibly with a name a temp-file scheme would pick
                ops.append(("write", f[1] + rng.choice([b".extra", b".tmp", b".tmp", b".new", b".part", b"~", b".bak"]), "g:%d:9" % rng.randrange(100)))
        if dirs_in and (rng.random() < 0.3 or i % 6 == 1):
            d = rng.choice(dirs_in)[1]
            if i % 6 == 1:
                ops.append(("fdirlink", d))              # a link to an existing directory OUTSIDE the project where a directory is expected
            else:
                ops.append(("write", d, "g:1:5"))        # a file where a directory is expected
            chosen[d] = "file_in_way_dir"
            stats["state_file_in_way_dir"] = stats.get("state_file_in_way_dir", 0) + 1
        if rng.random() < 0.3:
            p, fl, sp = rng.choice(arts)
            how = rng.choice(["file", "dangling", "foreign", "fifo"] + (["foreign_dir", "foreign_dir"] if "d" in fl else []))
            ops.append(("rm", p))
            if how == "file":
                ops.append(("write", p, "g:2:6"))        # a file where the artifact should be
            elif how == "dangling":
                ops.append(("flink", p, 0))             # e.g. a link to an unmounted disk
            elif how == "foreign":
                ops.append(("flink", p, 1))
            elif how == "foreign_dir":
                ops.append(("fdirlink", p))             # the artifact's directory is a link to a directory elsewhere
            else:
                ops.append(("fifo", p))
            chosen[p] = "art_root_" + how
            stats["state_art_root_" + how] = stats.get("state_art_root_" + how, 0) + 1
        c["pre_index"] = len(ops)
        c["strategy"] = rng.choice("lc") if not (big or dups) else "c"
        ops.append(("checkout", c["strategy"], False, []))
        c["ops"] = ops
        c["chosen"] = {k.hex(): v for k, v in chosen.items()}
        cases.append(c)
    return cases, stats


def oracle(run):
    case = run["case"]
    steps = run["steps"]
    k = case["pre_index"]
    if len(steps) <= k or steps[0]["rc"] != 0:
        return []
    before = steps[k - 1]["snap"] if k >= 1 else run["initial"]
    after = steps[k]
    bws, bcache = s1eval.parse_snap(before)
    aws, acache = s1eval.parse_snap(after["snap"])
    committed = s1eval.logical(steps[0]["snap"])
    v = []
    strat = case["strategy"]
    for p, val in bws.items():
        now = aws.get(p)
        if now == val:
            continue
        # the one exception: a link resolving to the exact object being checked out may become a copy
        if strat == "c" and val[0] == "lo" and now is not None and now[0] == "f" and bcache.get(val[1]) == now[1] \
                and committed.get(p) == ("f", now[1]):
            continue
        v.append(("overwritten", "pre-existing entry %r was %s and is %s after checkout --%s" % (p, val, now, "copy" if strat == "c" else "link")))
    # in the way => non-zero exit
    blocked = []
    for sp, st in case["stages"]:
        for ap, fl in st.get("out", []):
            for p, want in s1eval.logical(steps[0]["snap"], under=ap, skip_dirs_top=("r" in fl)).items():
                have = bws.get(p)
                if have is None:
                    continue
                if want[0] == "d":
                    if have[0] != "d":
                        blocked.append(p)
                elif want[0] == "f":
                    if have[0] == "lo" and bcache.get(have[1]) == want[1]:
                        continue
                    if have[0] == "f" and have[1] == want[1]:
                        continue          # an equal regular copy: "in the way" or "nothing to do" are both acceptable (see C15)
                    blocked.append(p)
    # an entry below a blocked directory position is unreachable, fine
    if blocked and after["rc"] == 0:
        v.append(("blocked-but-ok", "entries in the way (%s) but checkout exited 0" % blocked[:3]))
    return v


def nontrivial(run):
    ch = run["case"].get("chosen", {})
    vals = list(ch.values())
    return any(x not in ("keep", "absent") for x in vals) and any(x in ("keep", "extra") for x in vals)


def main(tier, replay=None):
    return s1eval.generic_main(PROP, tier, replay, make_cases, oracle, None, nontrivial,
                               rule="S1: link-committed artifacts, then each tracked entry put into one of %d pre-existing states (mixed within one "
                                    "directory), then checkout --link/--copy; oracle: every pre-existing entry identical afterwards (one exception: "
                                    "exact link -> copy), entries in the way => exit != 0; non-trivial = at least one entry in the way and one bystander" % len(STATES),
                               seed_salt=6, n_quick=120, n_thorough=1500)
