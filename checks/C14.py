"""C14 — checksums are BLAKE3-256 of the bytes, however they are read."""
import json, os, random, subprocess, tempfile, time
import vlib
import s1
from s1 import gen_content, ROOT_WARNING

PROP = "C14"
LENS = [0, 1, 2, 63, 64, 65, 127, 128, 1023, 1024, 1025, 2047, 2048, 2049, 3072, 4096, 5000, 65535, 65536, 65537, 131072, 200001]


def lines_for(rng, tier):
    lines = []
    meta = []
    lens = LENS + ([1 << 20, (1 << 20) + 1, 4 << 20] if tier == "thorough" else [])
    nchunkings = 6 if tier == "quick" else 50
    for n in lens:
        for _ in range(nchunkings if n <= 70000 else 2):
            seed = rng.randrange(10000)
            buf = rng.choice([0, 0, 1, 7, 64, 1000, 65536, 1 << 20])
            if buf in (1, 7) and n > 5000:
                buf = 0
            style = rng.choice(["whole", "ones", "random", "zeros", "halves"])
            chunks = []
            if style == "ones":
                chunks = [1] * min(n, 40)
            elif style == "random":
                left = n
                while left > 0 and len(chunks) < 30:
                    c = rng.choice([0, 1, 2, 63, 64, 1024, 4096, 70000])
                    chunks.append(c)
                    left -= c
            elif style == "zeros":
                chunks = [0, 0, min(n, 3), 0, 0]
            elif style == "halves":
                chunks = [n // 2]
            fail = rng.random() < 0.08 and chunks
            data = "g:%d:%d" % (seed, n)
            lines.append("%d %s %s%s" % (buf, data, ",".join(map(str, chunks)) or "-", " err" if fail else ""))
            meta.append((seed, n, bool(fail), len(chunks)))
    # a read that fails ONCE with a temporary error (EAGAIN / EINTR: a non-blocking pipe, a signal) in the middle of the stream, after
    # which the reader would deliver the rest: the answer is an error or the checksum of ALL the bytes, never of a part
    for n in (3000, 70000, 200000):
        for kind in ("eagain", "eintr", "patheagain"):
            for cut in (1, n // 2, n - 1):
                seed = rng.randrange(10000)
                lines.append("%d g:%d:%d %d %s" % (rng.choice([0, 4096]), seed, n, cut, kind))
                meta.append((seed, n, "temp", 1))
    return lines, meta


def run_lines(cmd, lines, timeout=3000):
    p = subprocess.run(cmd, input=("\n".join(lines) + "\n").encode(), stdout=subprocess.PIPE, stderr=subprocess.PIPE, timeout=timeout)
    if p.returncode != 0:
        raise vlib.BuildBroken(" ".join(cmd), p.stderr.decode(errors="replace")[-2000:])
    return p.stdout.decode().split("\n")[:-1]


def main(tier, replay=None):
    R = vlib.Result(PROP, tier)
    R.cov["rule"] = ("S7 in-process: real checksum.Checksum/ChecksumBuffer with scripted readers (lengths around 0/64/1024/64 KiB boundaries up to "
                     "200 kB, thorough 4 MiB; chunkings incl. empty and one-byte reads; buffers 1 B..1 MiB; failing readers in between; 16-way "
                     "concurrent batches on the shared pools) vs the Lean model of the reader loop and vs an independent Lean BLAKE3 validated on "
                     "the official test vectors in the same run; `dud checksum` on files and on a pipe written in pieces; "
                     "non-trivial = length > 1024 or at least 3 reads")
    R.cov["checker_cmd"] = "cd lean && lake build DudModel.Props.C14 && lake env lean <audit file: #print axioms of every theorem>"
    R.cov["trusted_base"] = vlib.TRUSTED_COMMON + ["zeebo/blake3 satisfies the hasher contract reset;write*;sum = BLAKE3(concat) (differentially tested here, not proved)",
                                                   "the Lean BLAKE3 is the specification's tree recursion; it is validated against the official vectors, not proved against them"]
    drv = vlib.build_driver()
    dud = vlib.build_dud()
    h = vlib.build_harness("inproc")
    rng = random.Random(vlib.seed() * 1000 + 14)
    # 1. reference BLAKE3 vs official vectors
    vec = json.load(open(os.path.join(vlib.VERIF, "corpus", "blake3_vectors.json")))
    got = run_lines([drv, "b3hex"], [bytes(i % 251 for i in range(n)).hex() or "-" for n, d in vec])
    bad = [(n, d, g) for (n, d), g in zip(vec, got) if d != g]
    R.cov["official_vectors"] = len(vec)
    if bad:
        R.violation(dict(kind="reference-broken", detail="Lean BLAKE3 disagrees with the official vectors", cases=bad[:3]), nofail=True)
    # 2. reader loop
    lines, meta = lines_for(rng, tier)
    if replay:
        lines = json.load(open(replay)).get("lines", lines)
        meta = [(0, 2000, False, 3)] * len(lines)
    impl = run_lines([h, "sum"], lines)
    plain_ix = [k_ for k_, mt_ in enumerate(meta) if mt_[2] != "temp"]
    model_plain = run_lines([drv, "sum"], [lines[k_] for k_ in plain_ix])
    model = [None] * len(lines)
    for k_, m_ in zip(plain_ix, model_plain):
        model[k_] = m_
    ref = run_lines([drv, "b3hex"], [gen_content(s, n).hex() or "-" for s, n, f, c in meta]) if not replay else model
    viol, diverged = [], []
    for i, (ln, a, m, r, mt) in enumerate(zip(lines, impl, model, ref, meta)):
        R.count(i, mt[1] > 1024 or mt[3] >= 3)
        want = "ERR" if mt[2] else r
        if mt[2] == "temp":
            # a temporary error in mid-stream: an error, or the checksum of everything — not modelled, judged by the oracle alone
            if a not in ("ERR", r):
                viol.append(dict(line=ln, implementation=a, blake3_of_all_bytes=r, what="a read failed once with a temporary error: the answer is the checksum of a PART of the stream"))
            continue
        if a != want:
            viol.append(dict(line=ln, implementation=a, blake3_of_bytes=want, previous_lines=lines[max(0, i - 2):i]))
        elif a != m:
            diverged.append(dict(line=ln, implementation=a, model=m))
        else:
            R.cov["traces_validated_against_impl"] += 1
    # 3. concurrent batches
    blines = [l for l in lines if not l.endswith(("err", "eagain", "eintr", "patheagain"))][:400]
    bref = {l: r for l, r, mt in zip(lines, ref, meta) if not mt[2]}
    for rep in range(2 if tier == "quick" else 10):
        out = run_lines([h, "batch"], blines)
        for l, o in zip(blines, out):
            R.count("batch-%d-%s" % (rep, l), True)
            if o != bref[l]:
                viol.append(dict(line=l, mode="concurrent batch", implementation=o, blake3_of_bytes=bref[l]))
    # 3a. many LARGE inputs in flight at once (each several buffers long, default buffer): sixteen goroutines, three rounds
    big_lines = ["0 g:%d:%d -" % (9000 + j, [300000, 1 << 20, 200001, 655360][j % 4]) for j in range(48)]
    big_ref = run_lines([drv, "b3hex"], [gen_content(9000 + j, [300000, 1 << 20, 200001, 655360][j % 4]).hex() for j in range(48)])
    for rep in range(3):
        out = run_lines([h, "batch"], big_lines)
        for l, o, r_ in zip(big_lines, out, big_ref):
            R.count("bigbatch-%d-%s" % (rep, l), True)
            if o != r_:
                viol.append(dict(line=l, mode="concurrent batch of large inputs", implementation=o, blake3_of_bytes=r_))
                break
    # 3b. what COMMIT records (file artifact, skip-cache output, plain input): the BLAKE3 of exactly the bytes — for a file larger than
    # 32 MiB whose size is not a multiple of the page size, and after a same-size replacement that carries an OLD timestamp
    import yaml as _yaml, shutil as _sh
    b3 = s1.B3(drv)
    cdir = tempfile.mkdtemp(prefix="c14commit.", dir=vlib.scratch())
    cenv = dict(os.environ, XDG_CONFIG_HOME=os.path.join(cdir, "xdg"), HOME=cdir, LC_ALL="C")
    try:
        for strat in ([], ["--copy"]):
            root = os.path.join(cdir, "p" + ("c" if strat else "l"))
            os.makedirs(root)
            q = dict(cwd=root, env=cenv, stdout=subprocess.PIPE, stderr=subprocess.PIPE)
            subprocess.run([dud, "init"], **q)
            big = (bytes(range(256)) * 4099)[:1048573] * 33          # 34 602 909 bytes: > 32 MiB, not a multiple of 4096
            files = {"big.bin": big, "skip.bin": b"s" * 70001, "in.bin": b"i" * 4097, "small.bin": b"x" * 5000}
            for nm, data in files.items():
                open(os.path.join(root, nm), "wb").write(data)
            open(os.path.join(root, "s.yaml"), "w").write("command: 'true'\ninputs:\n  in.bin: {}\noutputs:\n  big.bin: {}\n  small.bin: {}\n  skip.bin:\n    skip-cache: true\n")
            subprocess.run([dud, "stage", "add", "s.yaml"], **q)
            want = {nm: b3.file(os.path.join(root, nm)) for nm in files}
            p = subprocess.run([dud, "commit"] + strat, **q)
            doc = _yaml.safe_load(open(os.path.join(root, "s.yaml"))) or {}
            rec = {nm: ((doc.get("outputs") or {}).get(nm) or (doc.get("inputs") or {}).get(nm) or {}).get("checksum") for nm in files}
            R.count("commit-records-%s" % ("copy" if strat else "link"), True)
            for nm in files:
                if rec[nm] != want[nm]:
                    viol.append(dict(cli="dud commit %s: %s (%d bytes)" % (" ".join(strat), nm, len(files[nm])), implementation=rec[nm], blake3_of_bytes=want[nm],
                                     exit=p.returncode))
            if strat:
                # same size, other bytes, old timestamp (mv / cp -p / rsync -t / tar x), committed again
                path = os.path.join(root, "small.bin")
                os.unlink(path)
                open(path, "wb").write(b"y" * 5000)
                os.utime(path, (1577836800, 1577836800))
                want2 = b3.file(path)
                p = subprocess.run([dud, "commit"] + strat, **q)
                doc = _yaml.safe_load(open(os.path.join(root, "s.yaml"))) or {}
                got2 = ((doc.get("outputs") or {}).get("small.bin") or {}).get("checksum")
                R.count("recommit-same-size-old-mtime", True)
                if got2 != want2:
                    viol.append(dict(cli="dud commit --copy after small.bin was replaced by other bytes of the same size with an old timestamp",
                                     implementation=got2, blake3_of_bytes=want2, exit=p.returncode))
            _sh.rmtree(root, ignore_errors=True)
    finally:
        b3.close()
        _sh.rmtree(cdir, ignore_errors=True)
    # 4. the CLI: files and a pipe written in pieces
    tmp = tempfile.mkdtemp(prefix="c14.", dir=vlib.scratch())
    env = dict(os.environ, XDG_CONFIG_HOME=tmp, HOME=tmp)
    for n in [0, 5, 1024, 65537, 300000]:
        data = gen_content(n + 3, n)
        want = run_lines([drv, "b3hex"], [data.hex() or "-"])[0]
        path = os.path.join(tmp, "f%d" % n)
        open(path, "wb").write(data)
        for extra in ([], ["-b", "1"] if n < 2000 else ["-b", "4096"]):
            p = subprocess.run([dud, "checksum"] + extra + [path], env=env, stdout=subprocess.PIPE, stderr=subprocess.PIPE)
            out = ROOT_WARNING.sub(b"", p.stdout).decode().split()
            R.count("cli-file-%d-%s" % (n, extra), True)
            if not out or out[0] != want:
                viol.append(dict(cli="dud checksum %s <file of %d bytes>" % (" ".join(extra), n), implementation=out[:1], blake3_of_bytes=want))
        # stdin through a pipe, producer writes in several pieces
        for pieces in ([n], [1, n - 1] if n > 1 else [n], [n // 3, n // 3, n - 2 * (n // 3)]):
            p = subprocess.Popen([dud, "checksum"], env=env, stdin=subprocess.PIPE, stdout=subprocess.PIPE, stderr=subprocess.PIPE)
            off = 0
            try:
                for k in pieces:
                    p.stdin.write(data[off:off + k])
                    p.stdin.flush()
                    off += k
                    time.sleep(0.01)
                p.stdin.close()
            except (BrokenPipeError, OSError):
                pass            # the reader stopped reading early: its output is judged below
            out = ROOT_WARNING.sub(b"", p.stdout.read()).decode().split()
            p.wait()
            R.count("cli-pipe-%d-%s" % (n, pieces), True)
            if not out or out[0] != want:
                viol.append(dict(cli="producer writing %s bytes | dud checksum" % pieces, implementation=out[:1], blake3_of_bytes=want))
    # several files in ONE invocation (with and without a caller-chosen buffer size, files of many buffers each): one line per file, in
    # argument order, each the BLAKE3 of that file
    many = []
    for j, n in enumerate([300000, 299999, 1 << 20, 65536, 0, 777777, (1 << 20) + 1, 4097]):
        data = gen_content(n + 11 + j, n)
        path = os.path.join(tmp, "m%d" % j)
        open(path, "wb").write(data)
        many.append((path, run_lines([drv, "b3hex"], [data.hex() or "-"])[0]))
    for extra in ([], ["-b", "4096"], ["-b", "1"], ["-b", "65536"], ["--bufsize", "100000"]):
        for rep in range(3 if extra else 1):
            p = subprocess.run([dud, "checksum"] + extra + [m[0] for m in many], env=env, stdout=subprocess.PIPE, stderr=subprocess.PIPE)
            got = [l.split() for l in ROOT_WARNING.sub(b"", p.stdout).decode().splitlines() if l.strip()]
            R.count("cli-many-%s-%d" % (extra, rep), True)
            if [g[0] for g in got if g] != [m[1] for m in many] or [g[-1] for g in got if g] != [m[0] for m in many]:
                bad = [(m[0], m[1], g[0]) for m, g in zip(many, got) if g and g[0] != m[1]][:2]
                viol.append(dict(cli="dud checksum %s <%d files in one invocation>" % (" ".join(extra), len(many)), exit=p.returncode,
                                 lines=len(got), first_wrong=[dict(file=os.path.basename(a), blake3_of_bytes=b, implementation=c) for a, b, c in bad]))
                break
    # STDIN that is a regular file already read in part (`{ read header; dud checksum; } < file`): exactly the remaining bytes
    for n, off in [(5000, 0), (5000, 1), (300000, 65536), (300000, 299999), (70000, 70000)]:
        data = gen_content(n + 29, n)
        path = os.path.join(tmp, "stdin%d_%d" % (n, off))
        open(path, "wb").write(data)
        want = run_lines([drv, "b3hex"], [data[off:].hex() or "-"])[0]
        fd = os.open(path, os.O_RDONLY)
        os.lseek(fd, off, os.SEEK_SET)
        p = subprocess.run([dud, "checksum"], env=env, stdin=fd, stdout=subprocess.PIPE, stderr=subprocess.PIPE)
        os.close(fd)
        out = ROOT_WARNING.sub(b"", p.stdout).decode().split()
        R.count("cli-stdin-file-%d-%d" % (n, off), True)
        if not out or out[0] != want:
            viol.append(dict(cli="dud checksum < file of %d bytes already read up to offset %d" % (n, off), implementation=out[:1], blake3_of_remaining_bytes=want))
    # files whose reported size says nothing about what a read returns (procfs: st_size 0, content not empty)
    for path in ("/proc/version", "/proc/filesystems", "/proc/sys/kernel/ostype"):
        try:
            data = open(path, "rb").read()
        except OSError:
            continue
        want = run_lines([drv, "b3hex"], [data.hex() or "-"])[0]
        p = subprocess.run([dud, "checksum", path], env=env, stdout=subprocess.PIPE, stderr=subprocess.PIPE)
        out = ROOT_WARNING.sub(b"", p.stdout).decode().split()
        R.count("cli-procfs-%s" % path, True)
        if not out or out[0] != want:
            viol.append(dict(cli="dud checksum %s (st_size %d, %d bytes when read)" % (path, os.stat(path).st_size, len(data)), implementation=out[:1],
                             blake3_of_bytes=want))
    for v in viol[:6]:
        R.violation(dict(kind="property-violated-on-implementation", **v))
    if not viol:
        for d in diverged[:4]:
            R.violation(dict(kind="model-implementation-disagreement", stream="S7", **d), nofail=True)
    if viol or diverged:
        R.notes["lines"] = len(lines)
    R.sample(dict(lines=lines[:3]))
    R.sample(dict(lines=[l for l in lines if l.endswith("err")][:2]))
    R.absorb_audit(vlib.lean_audit(PROP))
    if tier == "thorough":
        ok, log = vlib.leanchecker(["DudModel.Props.C14"])
        if not ok:
            R.violation(dict(kind="leanchecker", detail=log), nofail=True)
    return R.finish()
