"""C09 — after a pipeline run, outputs are consistent with inputs."""
import random
import vlib, s1, gen, s1eval
from C08 import upstream

PROP = "C09"


def downstream(edges, xs):
    seen = set()
    todo = list(xs)
    while todo:
        x = todo.pop()
        for (j, i) in edges:
            if j == x and i not in seen:
                seen.add(i)
                todo.append(i)
    return seen


def make_cases(rng, tier, n):
    cases, stats = [], {}
    for c_i in range(n):
        ns = rng.choice([2, 3, 3, 4] + ([5, 6] if tier == "thorough" else []))
        c = gen.pipeline_project(rng, "hist-%d" % c_i, ns, tier=tier, lossy=0.3, dir_sources=1.0 if c_i % 10 == 4 else 0.25)
        edges = c["edges"]
        names = [sp for sp, st in c["stages"]]
        srcs = {}
        consumers = {}
        for i, (sp, st) in enumerate(c["stages"]):
            for p, fl in st.get("in", []):
                if (p.startswith(b"src/") or b"_cfg/" in p) and "d" not in fl:
                    srcs[i] = p
                    consumers.setdefault(p, set()).add(i)
        dirsrc = {}
        for i, (sp, st) in enumerate(c["stages"]):
            for p, fl in st.get("in", []):
                if p.startswith(b"src/dir") and "d" in fl:
                    dirsrc[i] = p
        ops = [("run", False, [])]
        dirty = set()
        vers = {}
        hist = []
        srclen = {e[1]: int(e[2].split(":")[2]) for e in c["init"] if e[0] == "file" and e[2].startswith("g:")}
        lossy = [i for i in srcs if c["stages"][i][1]["cmd"].startswith(b"vlen ")]
        nev = rng.randrange(3, 7 if tier == "quick" else 16)
        if c_i % 10 == 4 and dirsrc:
            # the manifest of a plain directory input is not in the local cache (a fresh clone that fetched only what it needed, a
            # pruned cache, another `cache:` setting) and the directory's content differs from what was committed: the stage is stale
            i = sorted(dirsrc)[(c_i // 10) % len(dirsrc)]
            ops += [("commit", rng.choice("lc"), []), ("rmobj", "r" + dirsrc[i].hex()),
                    ("write", dirsrc[i] + b"/late%d.txt" % c_i, "g:%d:6" % rng.randrange(1000)), ("run", False, [])]
            hist.append("dir-input-manifest-lost")
        if c_i % 10 == 7 and len(names) >= 2:
            # a run that FAILS in its last stage after earlier stages completed; the cause is repaired, a source of a completed stage
            # changes as well, and the run is repeated: nothing of the failed run may count
            last = len(names) - 1
            orig_cmd = c["stages"][last][1]["cmd"]
            first_src = sorted(srcs.items())[0] if srcs else None
            ops += [("setcmd", names[last], b"vfail S%d 3" % last), ("run", False, [])]
            if first_src:
                ops.append(("write", first_src[1], "g:%d:%d" % (rng.randrange(300000, 400000), rng.choice([2, 9]))))
            ops += [("setcmd", names[last], orig_cmd), ("run", False, []), ("commit", rng.choice("lc"), []), ("run", False, [])]
            hist.append("failed-run-then-edit")
        if c_i % 10 == 1:
            # an object of the cache is damaged (a transfer that was cut short) while the workspace holds the right bytes as copies;
            # the stage is regenerated and committed again: the object under that checksum holds the right bytes afterwards
            i = sorted(range(ns))[(c_i // 10) % ns]
            outp, fl = c["stages"][i][1]["out"][0]
            tgt = outp + (b"/f" if "d" in fl else b"")
            ops += [("commit", "c", []), ("corrupt", "p" + tgt.hex(), "g:%d:4" % rng.randrange(1000)), ("run", False, []), ("commit", rng.choice("lc"), []),
                    ("clone", []), ("checkout", rng.choice("lc"), False, []), ("run", False, [])]
            hist.append("damaged-object-recommitted")
        for _ in range(nev):
            ev = rng.choice(["edit_src", "edit_src", "edit_def", "damage", "delete", "run_all", "run_all", "run_t", "run_s", "commit_after_run",
                             "run_commit_run", "partial", "edit_ws", "same_len"])
            if ev in ("edit_ws", "same_len") and dirsrc and rng.random() < 0.5:
                # a file appears in a plain directory input while the directory keeps an OLD modification time (rsync -a, tar x, cp -a)
                i = rng.choice(sorted(dirsrc))
                vers[("d", i)] = vers.get(("d", i), 0) + 1
                ops += [("run", False, []), ("commit", rng.choice("lc"), []),
                        ("writeolddir", dirsrc[i] + b"/added%d.txt" % vers[("d", i)], "g:%d:5" % rng.randrange(1000)), ("run", False, [])]
                dirty = set()
                hist.append("dir-input-grows-old-mtime")
                continue
            if ev == "same_len":
                # a source of a `vlen` stage gets new bytes of the SAME length: the stage re-runs and reproduces identical
                # outputs, the commit must still record the new input; then run;commit;run is idle
                if not lossy:
                    continue
                i = rng.choice(lossy)
                ln = srclen.get(srcs[i], 3) or 3
                srclen[srcs[i]] = ln
                ops += [("run", False, []), ("commit", rng.choice("lc"), []),
                        ("write", srcs[i], "g:%d:%d" % (rng.randrange(100000, 200000), ln)),
                        ("run", False, []), ("commit", rng.choice("lc"), []), ("run", False, [])]
                dirty = set()
                hist.append("same-length-edit")
                continue
            if ev == "edit_ws":
                # the command changes in white space only, INSIDE the line: a different definition, the stage is stale
                i = rng.randrange(ns)
                sp, st = c["stages"][i]
                cur = st["cmd"]
                for o_ in reversed(ops):
                    if o_[0] == "setcmd" and o_[1] == sp:
                        cur = o_[2]
                        break
                toks = cur.split(b" ")
                k_ = rng.randrange(1, len(toks))
                new = b" ".join(toks[:k_]) + rng.choice([b"  ", b"   ", b"    "]) + b" ".join(toks[k_:])
                ops.append(("setcmd", sp, new))
                dirty.add(i)
                continue
            if ev == "partial":
                # regenerate and commit one stage on its own (everything else was consistent and committed before)
                cand = [i for i in srcs if downstream(edges, [i])]
                if not cand:
                    continue
                i = rng.choice(cand)
                ops += [("run", False, []), ("commit", rng.choice("lc"), []),
                        ("write", srcs[i], "g:%d:%d" % (rng.randrange(100000), rng.choice([2, 9]))),
                        ("run", True, [names[i]])]
                dirty = (set(consumers[srcs[i]]) - {i}) | downstream(edges, [i])
                if not (upstream(edges, [i]) & dirty):
                    ops.append(("commit", rng.choice("lc"), [names[i]]))        # commits exactly what was just regenerated
                    hist.append("partial-run-partial-commit")
                    if dirty and rng.random() < 0.6:
                        # one invocation that visits the freshly committed stage FIRST and the stale ones after it
                        tg = [i] + sorted(dirty)
                        ops.append(("run", False, [names[t] for t in tg]))
                        sc = upstream(edges, tg)
                        reran = dirty & sc
                        dirty = (dirty - sc) | (downstream(edges, reran | (sc & downstream(edges, reran))) - sc)
                continue
            if ev == "edit_src" and srcs:
                i = rng.choice(list(srcs))
                ln = rng.choice([1, 4, 30])
                srclen[srcs[i]] = ln
                ops.append(("write", srcs[i], "g:%d:%d" % (rng.randrange(100000), ln)))
                dirty |= consumers[srcs[i]]
            elif ev == "edit_def":
                i = rng.randrange(ns)
                sp, st = c["stages"][i]
                vers[i] = vers.get(i, 0) + 1
                cur = st["cmd"]
                for o_ in reversed(ops):
                    if o_[0] == "setcmd" and o_[1] == sp:
                        cur = o_[2]
                        break
                toks = cur.split()
                toks[1] = b"S%dv%d" % (i, vers[i])
                ops.append(("setcmd", sp, b" ".join(toks)))
                dirty.add(i)
            elif ev in ("damage", "delete"):
                i = rng.randrange(ns)
                outp, fl = c["stages"][i][1]["out"][0]
                if ev == "delete":
                    ops.append(("rm", outp))
                elif "d" in fl:
                    # at depth 1, 2 or 3 below the directory output
                    # (a producer that declares the directory without recursion plus sub/deep does not own sub/g)
                    ops.append(("write", outp + rng.choice([b"/f", b"/sub/deep/h"] if "r" in fl else [b"/f", b"/sub/g", b"/sub/deep/h"]), "g:5:5"))
                else:
                    ops.append(("write", outp, "g:5:5"))
                dirty.add(i)
            elif ev == "run_all":
                ops.append(("run", False, []))
                dirty = set()
            elif ev == "run_t":
                tg = rng.sample(range(ns), rng.randrange(1, ns + 1))
                ops.append(("run", False, [names[t] for t in tg]))
                sc = upstream(edges, tg)
                reran = dirty & sc
                # anything downstream of a re-executed stage that was not itself in scope is now stale
                dirty = (dirty - sc) | (downstream(edges, reran | (sc & downstream(edges, reran))) - sc)
            elif ev == "run_s":
                t = rng.randrange(ns)
                ops.append(("run", True, [names[t]]))
                if t in dirty:
                    dirty = (dirty - {t}) | downstream(edges, [t])
            elif ev == "commit_after_run":
                if ops[-1][0] != "run":
                    continue
                tg = rng.sample(range(ns), rng.randrange(0, ns + 1))
                sc = upstream(edges, tg) if tg else set(range(ns))
                if sc & dirty:
                    continue                 # would commit a stage that was not run after a change: excluded by the property's premise
                ops.append(("commit", rng.choice("lc"), [names[t] for t in tg]))
                hist.append("partial-commit" if tg else "commit")
            elif ev == "run_commit_run":
                ops += [("run", False, []), ("commit", rng.choice("lc"), []), ("run", False, [])]
                dirty = set()
                hist.append("run-commit-run")
        ops.append(("run", False, []))
        c["ops"] = ops
        c["hist"] = hist
        for o in ops:
            stats["ev_" + o[0]] = stats.get("ev_" + o[0], 0) + 1
        cases.append(c)
    return cases, stats


def oracle(run):
    case = run["case"]
    v = []
    steps = run["steps"]
    noin = set()
    for i, (sp, st) in enumerate(case["stages"]):
        if not st.get("in"):
            noin.add(i)
    names = [sp for sp, st_ in case["stages"]]
    committed_cmd = {}

    def command_of(snap, sp):
        doc = snap["stages"].get(sp)
        parsed = doc[1] if doc else None
        return ((parsed or {}).get("command") or "").strip()
    last_sum = {}
    for k, st in enumerate(steps):
        op = st["op"]
        # a stage file whose recorded definition checksum changed was (re)written by a commit — also by one that failed later on
        for sp_ in names:
            doc_ = st["snap"]["stages"].get(sp_)
            cs_ = ((doc_[1] if doc_ else None) or {}).get("checksum") or ""
            if cs_ and cs_ != last_sum.get(sp_):
                committed_cmd[sp_] = command_of(st["snap"], sp_)
            last_sum[sp_] = cs_
        if op[0] == "commit" and st["rc"] == 0:
            tg = [names.index(t) for t in op[2]] if op[2] else list(range(len(names)))
            for i_ in upstream(case["edges"], tg):
                if i_ < len(names):
                    committed_cmd[names[i_]] = command_of(st["snap"], names[i_])
        if op[0] == "run" and not op[1] and not op[2] and st["rc"] == 0 and st["log"] is not None:
            # "every stage that has a command either executed during that run … or is unchanged since its last commit: its definition …"
            ran_ids = set(st["log"])
            for i_, sp in enumerate(names):
                cmd_now = command_of(st["snap"], sp)
                if not cmd_now:
                    continue
                ident = (cmd_now.split() + ["", ""])[1].encode()
                if ident in ran_ids:
                    continue
                if sp not in committed_cmd:
                    v.append(("not-run-never-committed", "after a successful recursive `dud run` (step %d) stage %s neither executed nor was ever committed" % (k, sp.decode())))
                elif committed_cmd[sp] != cmd_now:
                    v.append(("definition-changed-not-run", "after a successful recursive `dud run` (step %d of %s) stage %s did not execute although its "
                              "command differs from the one its last commit recorded: %r vs %r" % (
                                  k, [s1.op_text(o) for o in case["ops"][:k + 1]][-5:], sp.decode(), cmd_now, committed_cmd[sp])))
        if op[0] == "run" and not op[1] and not op[2] and st["rc"] == 0:
            if st.get("inconsistent"):
                v.append(("stale-output", "after a successful recursive `dud run` (step %d of %s) the outputs of %s are not what their command "
                          "produces from the current inputs" % (k, [s1.op_text(o) for o in case["ops"][:k + 1]], [x.decode() for x in st["inconsistent"]])))
            # run; commit; run  => the last run executes no stage that has inputs
            if k >= 2 and steps[k - 1]["op"][0] == "commit" and not steps[k - 1]["op"][2] and steps[k - 1]["rc"] == 0 \
                    and steps[k - 2]["op"] == ("run", False, []) and steps[k - 2]["rc"] == 0:
                ran = [x for x in (st["log"] or [])]
                with_inputs = [x for x in ran if int(x[1:].split(b"v")[0]) not in noin]
                if with_inputs:
                    v.append(("second-run-not-idle", "a run straight after run;commit executed stages that have inputs: %s (all executed: %s)" % (with_inputs, ran)))
    return v


def finding_of(run, tag, text):
    case = run["case"]
    for f in vlib.load_findings():
        if f.get("property") != PROP:
            continue
        m = f.get("matcher")
        if m == "noinput-command-stage-upstream" and tag == "second-run-not-idle":
            # some stage with inputs has a command stage without inputs upstream of it
            noin = [i for i, (sp, st) in enumerate(case["stages"]) if not st.get("in")]
            if any(downstream(case["edges"], [i]) for i in noin):
                return f["id"], f["what"]
    return None


def big_output(R, dud, drv, rng, tier, runs):
    """an output larger than the 8 MiB comparison buffer, committed as a copy, then damaged near its end without changing its size:
    the next run must regenerate it (and everything downstream)"""
    import os, subprocess, tempfile, shutil
    base = tempfile.mkdtemp(prefix="c09big.", dir=vlib.scratch())
    env = dict(os.environ, XDG_CONFIG_HOME=os.path.join(base, "xdg"), HOME=base, LC_ALL="C")
    root = os.path.join(base, "p")
    os.makedirs(root)
    subprocess.run([dud, "init"], cwd=root, env=env, stdout=subprocess.DEVNULL, stderr=subprocess.DEVNULL)
    size = (8 << 20) + rng.choice([1, 4097, 1 << 20])
    open(os.path.join(root, "gen.yaml"), "w").write("command: rm -f big.bin; head -c %d /dev/zero | tr '\\\\0' 'x' > big.bin; echo gen >> LOG\ninputs:\n  seed.txt: {}\noutputs:\n  big.bin: {}\n" % size)
    open(os.path.join(root, "use.yaml"), "w").write("command: rm -f small.txt; tail -c 64 big.bin > small.txt; echo use >> LOG\ninputs:\n  big.bin: {}\noutputs:\n  small.txt: {}\n")
    open(os.path.join(root, "seed.txt"), "w").write("s")
    for c in (["stage", "add", "gen.yaml", "use.yaml"], ["run"], ["commit", "--copy"]):
        subprocess.run([dud] + c, cwd=root, env=env, stdout=subprocess.DEVNULL, stderr=subprocess.DEVNULL)
    viol = []
    for off in (size - 1, (8 << 20) + 0, size - 70):
        p = os.path.join(root, "big.bin")
        data = bytearray(open(p, "rb").read())
        if len(data) != size:
            viol.append("setup: big.bin has %d bytes" % len(data))
            break
        data[off] ^= 0xFF
        tmp = p + ".new"
        open(tmp, "wb").write(data)
        os.replace(tmp, p)
        open(os.path.join(root, "LOG"), "w").close()
        r = subprocess.run([dud, "run"], cwd=root, env=env, stdout=subprocess.PIPE, stderr=subprocess.PIPE)
        log = open(os.path.join(root, "LOG")).read().split()
        R.count("big-%d" % off, True)
        if r.returncode != 0 or "gen" not in log:
            viol.append("output big.bin (%d bytes) damaged at offset %d without changing its size: `dud run` executed %s (exit %d)" % (size, off, log, r.returncode))
        subprocess.run([dud, "commit", "--copy"], cwd=root, env=env, stdout=subprocess.DEVNULL, stderr=subprocess.DEVNULL)
    shutil.rmtree(base, ignore_errors=True)
    if viol:
        R.violation(dict(kind="property-violated-on-implementation", scenario="output larger than 8 MiB damaged near its end", violations=viol))


def main(tier, replay=None):
    return s1eval.generic_main(PROP, tier, replay, make_cases, oracle, finding_of,
                               nontrivial=lambda run: bool(run["case"].get("hist")),
                               rule="S3: pipelines of 2-4 (thorough: -6) deterministic stages x histories over {edit a source, edit a stage definition, "
                                    "damage/delete an output, run [targets] [--single-stage], commit [targets]} where commits directly follow a "
                                    "successful run and never cover a stage changed since it ran; oracle after every successful recursive run of all "
                                    "stages: every output equals what its command produces from the inputs as they are now; run;commit;run idle; "
                                    "non-trivial = history contains a commit", seed_salt=9, n_quick=150, n_thorough=2000, extra=big_output)
