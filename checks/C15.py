"""C15 — commit, checkout and init are idempotent."""
import os, shutil, subprocess, tempfile, hashlib
import vlib, s1, gen, s1eval

PROP = "C15"
CMDS = [("commit", "l"), ("commit", "c"), ("checkout", "l"), ("checkout", "c")]


def make_cases(rng, tier, n):
    cases, stats = [], {}
    for i in range(n):
        pipe = rng.random() < 0.3
        if pipe:
            # one stage feeding several others: committing a subset later must not change any stage file
            n_st = rng.choice([3, 4])
            c = gen.pipeline_project(rng, "idem-%d" % i, n_st, tier=tier, all_edges=[(0, k) for k in range(1, n_st)])
            first = rng.choice("lc")
            ops = [("run", False, []), ("commit", first, [])]
        else:
            c = gen.basic_project(rng, "idem-%d" % i, tier, stats=stats)
            first = rng.choice("lc")
            ops = [("commit", first, [])]
        if not pipe and i % 12 == 5:
            # a committed copy is replaced by other bytes of the same size carrying an old timestamp; commit --copy records the new
            # content, and the checkout --copy right after that commit is a no-op
            fs_ = [e for e in c["init"] if e[0] == "file" and e[2].startswith("g:") and int(e[2].split(":")[2]) > 0 and
                   any(e[1] == p_ or e[1].startswith(p_ + b"/") for p_, fl_, sp_ in s1eval.artifacts(c) if "s" not in fl_ and "r" not in fl_)]
            if fs_:
                e = rng.choice(fs_)
                c["ops"] = [("commit", "c", []), ("writeold", e[1], "g:%d:%s" % (rng.randrange(100000, 200000), e[2].split(":")[2])),
                            ("commit", "c", []), ("checkout", "c", False, []), ("commit", "c", []), ("status", [])]
                c["seq"] = ["c", "writeold", "commit-c", "checkout-c", "commit-c"]
                c["first_index"] = 2
                stats["same_size_old_mtime"] = stats.get("same_size_old_mtime", 0) + 1
                cases.append(c)
                continue
        if not pipe and i % 12 == 3:
            # tracked pairs `x` / `x.tmp` (and other suffixes a temp-file scheme would pick), all absent when checked out as copies;
            # the checkout is repeated: a no-op
            d0_ = [a for a in s1eval.artifacts(c) if a[1] == "d"]
            if not d0_:
                c["init"].append(("dir", b"pairs"))
                c["stages"].append((b"pairs.yaml", dict(cmd=b"", wd=b".", out=[(b"pairs", "d")])))
                d0_ = [(b"pairs", "d", b"pairs.yaml")]
            for j in range(12):
                sfx = [b".tmp", b".tmp", b".part", b".dud-partial", b"~", b".new"][j % 6]
                c["init"] += [("file", d0_[0][0] + b"/x%02d" % j, "g:%d:%d" % (5000 + j, 30 + j)), ("file", d0_[0][0] + b"/x%02d" % j + sfx, "g:%d:%d" % (6000 + j, 7 + j))]
            c["ops"] = [("commit", "l", []), ("clone", [b"workdir", b"workdir/inner"] if c.get("cwd") else []), ("checkout", "c", False, []),
                        ("checkout", "c", False, []), ("status", [])]
            c["seq"] = ["l", "clone", "checkout-c", "checkout-c"]
            c["first_index"] = 0
            stats["tmp_sibling_pairs"] = stats.get("tmp_sibling_pairs", 0) + 1
            cases.append(c)
            continue
        if not pipe and i % 12 == 9:
            # after a link commit, edits that leave nothing to hash: a committed link deleted (in a sub-directory when there is one),
            # two committed links of one directory swapped, a file replaced by an empty file; the tree is committed again and the
            # checkout straight after that commit is a no-op — in the workspace and in a clone
            tracked = [e for e in c["init"] if e[0] == "file" and
                       any(e[1].startswith(p_ + b"/") for p_, fl_, sp_ in s1eval.artifacts(c) if "d" in fl_ and "s" not in fl_ and "r" not in fl_)]
            bydir = {}
            for e in tracked:
                bydir.setdefault(e[1].rsplit(b"/", 1)[0], []).append(e)
            if tracked:
                deep = sorted(tracked, key=lambda e: -e[1].count(b"/"))
                edits = []
                kind = ["delete", "swap", "empty", "all"][(i // 12) % 4]
                if kind in ("delete", "all"):
                    edits.append(("rm", deep[0][1]))
                pairs = [es for d_, es in sorted(bydir.items()) if len([x for x in es if x[1] != deep[0][1]]) >= 2]
                if kind in ("swap", "all") and pairs:
                    a_, b_ = [x for x in pairs[0] if x[1] != deep[0][1]][:2]
                    edits += [("mv", a_[1], a_[1] + b".swp"), ("mv", b_[1], a_[1]), ("mv", a_[1] + b".swp", b_[1])]
                if kind in ("empty", "all") or not edits:
                    edits.append(("write", deep[-1][1], "g:1:0"))
                c["ops"] = [("commit", "l", [])] + edits + [("commit", "l", []), ("checkout", "l", False, []), ("status", []),
                                                          ("clone", [b"workdir", b"workdir/inner"] if c.get("cwd") else []),
                                                          ("checkout", rng.choice("lc"), False, [])]
                c["seq"] = ["l", "no-bytes-edit:" + kind, "commit-l", "checkout-l", "clone", "checkout"]
                c["first_index"] = 1 + len(edits)
                c["clone_checks"] = True
                stats["no_bytes_edit_" + kind] = stats.get("no_bytes_edit_" + kind, 0) + 1
                cases.append(c)
                continue
        if not pipe and i % 12 == 7:
            # several NAMES of one inode inside the tracked tree (cp -al, rsync --link-dest, ln), see checks/C01.py: a link-mode
            # commit leaves every further name in place (rename onto a name of the same inode is a no-op); the repeated commands
            # that follow must still be no-ops. No random draw is used here.
            spec_ = "g:%d:%d" % (800 + i, (7, 300, 65537)[(i // 12) % 3])
            for a_ in s1eval.artifacts(c):
                if a_[1] == "d":
                    c["init"] += [("file", a_[0] + b"/hl-first.bin", spec_), ("dir", a_[0] + b"/hl-sub"),
                                  ("file", a_[0] + b"/hl-sub/hl-second.bin", spec_), ("file", a_[0] + b"/hl-third.bin", spec_)]
            c["hardlinks"] = True
            stats["hardlinked_names"] = stats.get("hardlinked_names", 0) + 1
        seq = []
        for _ in range(rng.randrange(1, 5)):
            k, s_ = rng.choice(CMDS)
            if rng.random() < 0.4 and seq:
                k, s_ = seq[-1]             # a true repetition
            seq.append((k, s_))
            targets = []
            if rng.random() < 0.25 and len(c["stages"]) > 1:
                targets = [rng.choice(c["stages"])[0]]
            ops.append(("commit", s_, targets) if k == "commit" else ("checkout", s_, False, targets))
        c["ops"] = ops
        c["seq"] = [first] + ["%s-%s" % x for x in seq]
        for x in seq:
            stats["cmd_%s_%s" % x] = stats.get("cmd_%s_%s" % x, 0) + 1
        cases.append(c)
    return cases, stats


def copies_present(snap, committed):
    ws, cache = s1eval.parse_snap(snap)
    return any(v[0] == "f" and committed.get(p) == v for p, v in ws.items())


def oracle(run):
    steps = run["steps"]
    v = []
    first = 1 if steps and steps[0]["op"][0] == "run" else 0
    first = run["case"].get("first_index", first)
    if len(steps) <= first or steps[first]["rc"] != 0:
        return v
    committed = s1eval.logical(steps[first]["snap"])
    for i in range(first + 1, len(steps)):
        prev, cur = steps[i - 1], steps[i]
        op = cur["op"]
        if op[0] not in ("commit", "checkout"):
            continue
        if prev["op"][0] == "clone":
            # a fresh workspace: the checkout must bring back exactly what the last commit saw
            what = "`%s` in a clone after `%s`" % (s1.op_text(op), " ; ".join(s1.op_text(s["op"]) for s in steps[:i]))
            if cur["rc"] != 0:
                v.append(("clone-checkout-fails", "%s exits %d: %s" % (what, cur["rc"], cur["stderr"][-160:])))
                break
            diff, got, want_ = [], {}, {}
            for a_, fl_, sp_ in s1eval.artifacts(run["case"]):
                if "s" in fl_:
                    continue
                w_ = s1eval.logical(steps[first]["snap"], under=a_, skip_dirs_top=("r" in fl_))
                g_ = s1eval.logical(cur["snap"], under=a_, skip_dirs_top=("r" in fl_))
                want_.update(w_)
                got.update(g_)
                diff += [p for p in set(w_) | set(g_) if w_.get(p) != g_.get(p)]
            committed_ = want_
            if diff:
                v.append(("clone-differs", "%s does not reproduce what the last commit saw, e.g. %r: %s -> %s" % (
                    what, sorted(diff)[0], committed_.get(sorted(diff)[0]), got.get(sorted(diff)[0]))))
            continue
        what = "`%s` after `%s`" % (s1.op_text(op), " ; ".join(s1.op_text(s["op"]) for s in steps[:i]))
        if cur["rc"] != 0:
            v.append(("repeat-fails:" + op[0] + "-" + op[1] + (":over-copies" if copies_present(prev["snap"], committed) else ""),
                      "%s exits %d: %s" % (what, cur["rc"], cur["stderr"][-160:])))
            break
        pc = {n: d for n, d, m in prev["snap"]["cache"]}
        cc = {n: d for n, d, m in cur["snap"]["cache"]}
        if pc != cc:
            v.append(("cache-changed", "%s changed the cache: +%s -%s" % (what, sorted(set(cc) - set(pc))[:2], sorted(set(pc) - set(cc))[:2])))
        for sp, doc in cur["snap"]["stages"].items():
            pd = prev["snap"]["stages"].get(sp)
            if doc is None or pd is None or doc[0] != pd[0]:
                v.append(("stage-file-changed", "%s rewrote stage file %s with other bytes" % (what, sp.decode())))
        a, b = s1eval.logical(prev["snap"]), s1eval.logical(cur["snap"])
        if a != b:
            v.append(("content-changed", "%s changed the logical workspace content" % what))
        if op == prev["op"]:
            pw = [l for l in prev["snap"]["lines"] if l.startswith("w ")]
            cw = [l for l in cur["snap"]["lines"] if l.startswith("w ")]
            if pw != cw:
                v.append(("workspace-changed", "%s (exact repetition) changed the workspace" % what))
    return v


def finding_of(run, tag, text):
    for f in vlib.load_findings():
        if f.get("property") != PROP:
            continue
        m = f.get("matcher")
        if m == "checkout-over-regular-copies" and tag.startswith("repeat-fails:checkout") and tag.endswith(":over-copies"):
            return f["id"], f["what"]
    return None


def init_twice(R, dud, drv, rng, tier, runs):
    """`dud init` inside an initialised project never discards index, configuration or cache."""
    base = tempfile.mkdtemp(prefix="init.", dir=vlib.scratch())
    env = dict(os.environ, XDG_CONFIG_HOME=os.path.join(base, "xdg"), HOME=base, LC_ALL="C")
    viol = []
    n = 0
    for where, with_cfg, missing in [(w_, c_, m_) for w_ in ("root", "sub") for c_ in (False, True)
                                     for m_ in (None, "config.yaml", "rclone.conf", ".gitignore", "index")]:
        if missing and where == "sub" and not with_cfg:
            continue
        for _once in (0,):
            n += 1
            root = os.path.join(base, "p%d" % n)
            os.makedirs(os.path.join(root, "sub"))
            subprocess.run([dud, "init"], cwd=root, env=env, stdout=subprocess.DEVNULL, stderr=subprocess.DEVNULL)
            with open(os.path.join(root, "s.yaml"), "w") as f:
                f.write("outputs:\n  a.bin: {}\n")
            with open(os.path.join(root, "a.bin"), "wb") as f:
                f.write(b"data")
            if with_cfg:
                with open(os.path.join(root, ".dud", "config.yaml"), "a") as f:
                    f.write("remote: /somewhere/else\n")
                with open(os.path.join(root, ".dud", "rclone.conf"), "a") as f:
                    f.write("[s3]\ntype = s3\nprovider = Other\n")
            subprocess.run([dud, "stage", "add", "s.yaml"], cwd=root, env=env, stdout=subprocess.DEVNULL, stderr=subprocess.DEVNULL)
            subprocess.run([dud, "commit"], cwd=root, env=env, stdout=subprocess.DEVNULL, stderr=subprocess.DEVNULL)

            def state():
                out = {}
                for dp, dn, fn in os.walk(os.path.join(root, ".dud")):
                    for f in fn:
                        q = os.path.join(dp, f)
                        out[os.path.relpath(q, root)] = hashlib.sha256(open(q, "rb").read()).hexdigest()
                return out
            if missing:
                # one of the files `dud init` writes has gone missing (deleted by accident, not under version control …):
                # everything that is still there is the project's index, configuration and cache
                os.unlink(os.path.join(root, ".dud", missing))
            before = state()
            cwd = root if where == "root" else os.path.join(root, "sub")
            p = subprocess.run([dud, "init"], cwd=cwd, env=env, stdout=subprocess.PIPE, stderr=subprocess.PIPE)
            after = state()
            R.count("init-%s-%s-%s" % (where, with_cfg, missing), True)
            lost = [k for k in before if after.get(k) != before[k]]
            if lost:
                viol.append(dict(where=where, edited_config=with_cfg, missing_before_init=missing, rc=p.returncode, changed=lost))
    shutil.rmtree(base, ignore_errors=True)
    if viol:
        known = [f for f in vlib.load_findings() if f.get("property") == PROP and f.get("matcher") == "init-in-initialised-project"]
        root_cases = [x for x in viol if x["where"] == "root"]
        if known and root_cases and all(x["where"] == "root" for x in viol):
            R.known_finding(known[0]["id"], known[0]["what"])
        else:
            R.violation(dict(kind="property-violated-on-implementation", scenario="dud init run again inside an initialised project",
                             observed=viol))
    R.cov["init_scenarios"] = n


def main(tier, replay=None):
    return s1eval.generic_main(PROP, tier, replay, make_cases, oracle, finding_of,
                               nontrivial=lambda run: any(e[0] == "dir" for e in run["case"]["init"]),
                               rule="S1: after an initial commit, sequences of length <= 4 over {commit, commit --copy, checkout, checkout --copy} "
                                    "(with stage subsets): every repeat must exit 0, keep cache objects and stage-file bytes, keep logical content "
                                    "(literal workspace on an exact repetition); plus `dud init` re-run from root and sub-directory; "
                                    "non-trivial = tree has a directory artifact", seed_salt=15, n_quick=120, n_thorough=1500, extra=init_twice)
