"""C20 — caches written by older dud versions stay readable."""
import copy
import vlib, s1, gen, s1eval

PROP = "C20"


def make_cases(rng, tier, n):
    cases, stats = [], {}
    for i in range(n // 3):
        base = gen.basic_project(rng, "old-%d" % i, tier, stats=stats, allow_inputs=False)
        keep = [b"workdir", b"workdir/inner"] if base.get("cwd") else []
        # a chain of nested directories in one directory artifact: manifests of several depths, so that a
        # subset conversion yields old-below-new and new-below-old
        darts0 = [a for a in s1eval.artifacts(base) if a[1] == "d"]
        if darts0 and rng.random() < 0.7:
            p = rng.choice(darts0)[0]
            for lvl in range(rng.choice([3, 4, 6])):
                p = p + b"/lv%d" % lvl
                base["init"].append(("dir", p))
                base["init"].append(("file", p + b"/leaf%d.txt" % lvl, "g:%d:%d" % (rng.randrange(1000), rng.choice([0, 5, 300]))))
                if rng.random() < 0.4:
                    base["init"].append(("dir", p + b"/side%d" % lvl))
                    base["init"].append(("file", p + b"/side%d/s.txt" % lvl, "g:%d:7" % rng.randrange(1000)))
        if i % 6 == 1 and darts0:
            # entries (files and sub-directories) named exactly like the keys of the two manifest schemas, at two depths
            p0 = darts0[0][0]
            for nm in (b"contents", b"Contents", b"path", b"Path", b"checksum", b"Checksum", b"is-dir", b"IsDir", b"SkipCache", b"DisableRecursion"):
                if not any(e[1] == p0 + b"/" + nm for e in base["init"]):
                    if nm in (b"contents", b"Path", b"IsDir"):
                        base["init"] += [("dir", p0 + b"/" + nm), ("file", p0 + b"/" + nm + b"/contents", "g:%d:6" % rng.randrange(1000)),
                                         ("file", p0 + b"/" + nm + b"/Checksum", "g:%d:7" % rng.randrange(1000))]
                    else:
                        base["init"].append(("file", p0 + b"/" + nm, "g:%d:%d" % (rng.randrange(1000), rng.choice([0, 5, 300]))))
            stats["schema_key_names"] = stats.get("schema_key_names", 0) + 1
        files = [e for e in base["init"] if e[0] == "file"]
        dart = [a for a in s1eval.artifacts(base) if "d" in a[1]]
        flow = rng.choice(["checkout", "status", "pushfetch", "recommit", "recommit_edit"])
        tail = []
        if flow == "checkout":
            tail = [("clone", keep), ("checkout", rng.choice("lc"), False, []), ("status", [])]
        elif flow == "status":
            tail = [("status", [])]
        elif flow == "pushfetch":
            tail = [("push", False, []), ("wipecache",), ("fetch", False, []), ("clone", keep), ("checkout", rng.choice("lc"), False, []), ("status", [])]
        elif flow == "recommit":
            tail = [("commit", rng.choice("lc"), []), ("status", [])]
        else:
            ed = []
            if files:
                f = rng.choice(files)
                ed.append(("write", f[1], "g:%d:%d" % (rng.randrange(9000, 9999), rng.choice([0, 4, 700]))))
            if dart:
                ed.append(("write", rng.choice(dart)[0] + b"/zz_added.txt", "g:8:8"))
            tail = ed + [("commit", rng.choice("lc"), []), ("status", []), ("clone", keep), ("checkout", "c", False, []), ("status", [])]
        first = ("commit", rng.choice("lc"), [])
        sel = "".join(sorted(rng.sample("0123456789abcdef", rng.choice([4, 8, 8, 12]))))
        for twin, conv in (("old", [("oldschema",)]), ("mixed", [("oldschema", sel)]), ("new", [])):
            c = copy.deepcopy(base)
            c["id"] = "%s-%s" % (base["id"], twin)
            c["group"] = base["id"]
            c["twin"] = twin
            c["flow"] = flow
            c["ops"] = [first] + conv + tail
            cases.append(c)
        stats["flow_" + flow] = stats.get("flow_" + flow, 0) + 1
    for i in range(max(2, n // 30)):
        # a pipeline that was run and committed; then (old / mixed twin) its manifests are rewritten in the old schema: the next `dud run`
        # finds every stage up to date in all three twins (run uses the short-circuit form of status)
        base = gen.pipeline_project(rng, "old-pipe-%d" % i, rng.choice([2, 3]), tier="quick")
        for _retry in range(8):
            if "dir" in base["kinds"]:
                break          # at least one stage writes a directory output (there is a manifest to convert)
            base = gen.pipeline_project(rng, "old-pipe-%d" % i, rng.choice([2, 3]), tier="quick")
        sel = "".join(sorted(rng.sample("0123456789abcdef", 8)))
        # every other pipeline is committed with links (the workspace directories then hold nothing but links)
        first = [("run", False, []), ("commit", "l" if i % 2 == 0 else rng.choice("lc"), [])]
        tail = [("run", False, []), ("status", [])]
        for twin, conv in (("old", [("oldschema",)]), ("mixed", [("oldschema", sel)]), ("new", [])):
            c = copy.deepcopy(base)
            c["id"] = "%s-%s" % (base["id"], twin)
            c["group"] = base["id"]
            c["twin"] = twin
            c["flow"] = "run_idle"
            c["ops"] = first + conv + tail
            cases.append(c)
        stats["flow_run_idle"] = stats.get("flow_run_idle", 0) + 1
    # a manifest of a few hundred KiB in the old schema (about 2000 entries) that also lists sub-directories; and many (700) sub-directories
    # read under a tight descriptor limit with the garbage collector off (every manifest that is opened is closed again — by the code,
    # not by a finalizer that happens to run in time)
    init = [("dir", b"large")] + [("file", b"large/f%04d" % j, "g:%d:%d" % (j % 9, j % 4)) for j in range(1950)]
    for j in range(30):
        init += [("dir", b"large/sub%02d" % j), ("file", b"large/sub%02d/in.txt" % j, "g:%d:6" % (500 + j))]
    grp = [("old-large", dict(id="old-large", init=init, stages=[(b"large.yaml", dict(cmd=b"", wd=b".", out=[(b"large", "d")]))], ops=[], cache="rel", timeout=300))]
    init = [("dir", b"fan")]
    for j in range(700):
        init += [("dir", b"fan/s%03d" % j), ("file", b"fan/s%03d/u.txt" % j, "g:%d:5" % (j % 50))]
    grp.append(("old-fds", dict(id="old-fds", init=init, stages=[(b"fan.yaml", dict(cmd=b"", wd=b".", out=[(b"fan", "d")]))], ops=[], cache="rel", timeout=300,
                                env=dict(VERIF_NOFILE="300", GOGC="off"))))
    for gid, base in grp:
        for twin, conv in (("old", [("oldschema",)]), ("new", [])):
            c = copy.deepcopy(base)
            c["id"] = gid + "-" + twin
            c["group"] = gid
            c["twin"] = twin
            c["flow"] = "checkout"
            c["ops"] = [("commit", "l", [])] + conv + ([("status", []), ("clone", []), ("checkout", "l", False, []), ("status", [])] if gid == "old-large" else
                                                      [("status", []), ("clone", []), ("checkout", "l", False, [])])
            cases.append(c)
        stats["group_" + gid] = 1
    if tier == "thorough" or n >= 900:
        # a manifest of several MiB: a flat directory of 30000 entries (an old-schema entry is about half as long again as a
        # current one, so any size limit tuned to the current schema bites the old one first)
        init = [("dir", b"many")] + [("file", b"many/f%05d" % j, "g:%d:%d" % (j % 7, j % 3)) for j in range(30000)]
        base = dict(id="old-huge", init=init, stages=[(b"many.yaml", dict(cmd=b"", wd=b".", out=[(b"many", "d")]))], ops=[], cache="rel", timeout=900)
        for twin, conv in (("old", [("oldschema",)]), ("new", [])):
            c = copy.deepcopy(base)
            c["id"] = "old-huge-" + twin
            c["group"] = "old-huge"
            c["twin"] = twin
            c["flow"] = "checkout"
            c["ops"] = [("commit", "l", [])] + conv + [("clone", []), ("checkout", "l", False, []), ("status", [])]
            cases.append(c)
        stats["huge_manifest"] = 1
    return cases, stats


def oracle(run):
    # each twin on its own: the commands after the conversion must succeed
    v = []
    for st in run["steps"]:
        if st["op"][0] in s1.DUD_OPS and st["rc"] != 0 and not (run["case"]["flow"] == "run_idle" and st["op"][0] == "run"):
            v.append(("failed", "`%s` failed on the %s-schema cache (flow %s): %s" % (s1.op_text(st["op"]), run["case"]["twin"], run["case"]["flow"], st["stderr"][-160:])))
            break
    return v


def big_manifest(R, dud, drv, rng):
    """a flat directory of 28000 entries: its old-schema manifest (about 4.5 MB) is half as large again as the current-schema one
    (about 2.9 MB); checkout, status and a recommit from the old-schema cache must work exactly as from the current one.
    (Direct CLI run with its own light-weight observation: entry count, link targets, exit codes.)"""
    import os, shutil, tempfile
    base = tempfile.mkdtemp(prefix="c20big.", dir=vlib.scratch())
    n = 28000
    try:
        res = {}

        def one(twin):
            b3 = s1.B3(drv)
            proj = s1.Project(dud, os.path.join(base, twin), remote=False)
            proj.timeout = 600
            d = os.path.join(proj.root, "many")
            os.makedirs(d)
            for j in range(n):
                with open(os.path.join(d, "f%05d" % j), "wb") as f:
                    f.write(b"x" * (j % 3))
            proj.write_stage(b"many.yaml", dict(cmd=b"", wd=b".", out=[(b"many", "d")]))
            proj.write_index()
            rcs = [("commit", proj.dud(["commit"], cwd=proj.root)[0])]
            sizes = []
            if twin == "old":
                s1.convert_old_schema(proj, b3)
            for hh in os.listdir(proj.cache):
                for rest in os.listdir(os.path.join(proj.cache, hh)):
                    sizes.append(os.path.getsize(os.path.join(proj.cache, hh, rest)))
            shutil.rmtree(d)
            rc, so, se = proj.dud(["checkout"], cwd=proj.root)
            rcs.append(("checkout", rc, se.decode(errors="replace")[-200:] if rc else ""))
            entries = len(os.listdir(d)) if os.path.isdir(d) else -1
            resolved = sum(1 for x in (os.listdir(d) if os.path.isdir(d) else []) if os.path.exists(os.path.join(d, x)))
            rc, so, se = proj.dud(["status"], cwd=proj.root)
            rcs.append(("status", rc, so.decode(errors="replace")[-120:]))
            with open(os.path.join(d, "added.txt") if os.path.isdir(d) else os.devnull, "wb") as f:
                f.write(b"new")
            rc, so, se = proj.dud(["commit"], cwd=proj.root)
            rcs.append(("recommit", rc, se.decode(errors="replace")[-200:] if rc else ""))
            rec = open(os.path.join(proj.root, "many.yaml")).read()
            res[twin] = dict(rcs=rcs, entries=entries, resolved=resolved, largest_object=max(sizes) if sizes else 0, recorded=rec)
            proj.cleanup()
            b3.close()
        from concurrent.futures import ThreadPoolExecutor
        with ThreadPoolExecutor(max_workers=2) as ex:
            list(ex.map(one, ("old", "new")))
        R.count("big-manifest", True)
        o, nw = res["old"], res["new"]
        bad = []
        if [x[:2] for x in o["rcs"]] != [x[:2] for x in nw["rcs"]]:
            bad.append("exit codes differ: old-schema cache %s, current-schema cache %s" % (o["rcs"], nw["rcs"]))
        if (o["entries"], o["resolved"]) != (nw["entries"], nw["resolved"]) or nw["entries"] != n:
            bad.append("checkout restored %d entries (%d resolving) from the old-schema cache, %d (%d) from the current one, committed %d" % (
                o["entries"], o["resolved"], nw["entries"], nw["resolved"], n))
        if o["recorded"] != nw["recorded"]:
            bad.append("the recommit on top of the old-schema manifest records another checksum than on top of the current one")
        R.cov["big_manifest_bytes"] = dict(old=o["largest_object"], new=nw["largest_object"])
        if bad:
            R.violation(dict(kind="property-violated-on-implementation", scenario="directory with %d entries: old-schema manifest of %d bytes vs current-schema %d bytes" % (
                n, o["largest_object"], nw["largest_object"]), violations=bad))
    finally:
        shutil.rmtree(base, ignore_errors=True)


def twins(R, dud, drv, rng, tier, runs):
    big_manifest(R, dud, drv, rng)
    by = {}
    for r in runs:
        by.setdefault(r["case"]["group"], {})[r["case"]["twin"]] = r
    for g, pair in by.items():
        if "new" not in pair:
            continue
        for tw in ("old", "mixed"):
            if tw in pair:
                compare_twins(R, g + "-" + tw, pair[tw], pair["new"])


def compare_twins(R, g, o, n):
    if True:
        if o["error"] or n["error"]:
            return
        so = [s for s in o["steps"] if s["op"][0] != "oldschema"]
        sn = n["steps"]
        mixed = any(len(s["x"]) >= 1 for s in o["steps"] if s["op"][0] == "oldschema")
        R.count("twin-" + g, mixed)
        diffs = []
        for a, b in zip(so, sn):
            if a["op"] != b["op"]:
                break
            if (a["rc"] == 0) != (b["rc"] == 0):
                diffs.append("`%s`: exit %d on the old-schema cache, %d on the current one" % (s1.op_text(a["op"]), a["rc"], b["rc"]))
                break
            if s1eval.logical(a["snap"]) != s1eval.logical(b["snap"]):
                diffs.append("`%s`: workspace content differs between old-schema and current cache" % s1.op_text(a["op"]))
            if a["op"][0] == "status":
                sa = {p: (v["tree"]["cm"], v["text"]) for p, v in s1eval.status_of(a).items()}
                sb = {p: (v["tree"]["cm"], v["text"]) for p, v in s1eval.status_of(b).items()}
                if sa != sb:
                    diffs.append("`status` differs: old %s current %s" % (sa, sb))
            if a["op"][0] == "commit" and a is not so[0]:
                if s1eval.recorded(a["snap"]) != s1eval.recorded(b["snap"]):
                    diffs.append("recommit on top of the old-schema manifests records other checksums than on the current ones")
            if a["op"][0] == "run" and a is not so[0] and a["log"] is not None and b["log"] is not None and sorted(a["log"]) != sorted(b["log"]):
                diffs.append("`dud run` after the conversion executes %s on the old-schema cache and %s on the current one" % (a["log"], b["log"]))
            if a["op"][0] in ("push",):
                # same number of objects transferred
                if len(a["snap"]["remote"]) != len(b["snap"]["remote"]):
                    diffs.append("push transferred %d objects from the old-schema cache, %d from the current one" % (len(a["snap"]["remote"]), len(b["snap"]["remote"])))
        if diffs:
            R.violation(dict(kind="property-violated-on-implementation", case=s1eval.case_json(o["case"]), describe=s1eval.describe(o["case"]),
                             violations=diffs[:4]))


def main(tier, replay=None):
    return s1eval.generic_main(PROP, tier, replay, make_cases, oracle, None, nontrivial=lambda run: True,
                               rule="S1 triplets: the same project committed once, then (old twin) every manifest / (mixed twin) a random subset of the manifests "
                                    "of the cache rewritten in the pre-tag schema bottom-up with objects re-keyed, followed by checkout / status / push+wipe+fetch+checkout / recommit / edit+recommit; "
                                    "oracle: the old-schema twin behaves exactly like the current-schema twin (workspace, status, checksums after recommit); "
                                    "non-trivial = at least one manifest was converted", seed_salt=20, n_quick=100, n_thorough=1200, extra=twins)
