"""C04 — a failed commit loses nothing, unlocks, and can simply be retried."""
import errno, json, os, random, re
import vlib, s1, s2, gen, s1eval

PROP = "C04"
ERRNOS = [errno.EIO, errno.ENOSPC, errno.EACCES]


def scenarios(rng, tier):
    out = []
    kinds = ["dir-link", "dir-copy", "xdev-link", "recommit", "pipeline"]
    n = 5 if tier == "quick" else 20
    for i in range(n):
        kind = kinds[i % len(kinds)]
        if kind == "pipeline":
            c = gen.pipeline_project(rng, "flt-pipe-%d" % i, 2, tier="quick", all_edges=[(0, 1)])
            c["ops"] = [("run", False, [])]
            c["cache"] = "rel"
            c["cmd"] = ["commit"]
        else:
            init = [("dir", b"tree")]
            budget = [rng.choice([3, 5])]
            init += gen.gen_tree(rng, b"tree", 2, 4, budget, ["ascii"], [0, 4, 300, 66000], allow_empty=False)
            if not any(e[0] == "file" for e in init):
                init.append(("file", b"tree/x.bin", "g:3:9"))
            c = dict(id="flt-%s-%d" % (kind, i), init=init, stages=[(b"s.yaml", dict(cmd=b"", wd=b".", out=[(b"tree", "d")]))], ops=[],
                     cache="shm" if kind == "xdev-link" else "rel")
            if kind == "recommit":
                f = rng.choice([e for e in init if e[0] == "file"])
                c["ops"] = [("commit", "l", []), ("write", f[1], "g:%d:77" % rng.randrange(5000)), ("write", b"tree/new.bin", "g:9:9")]
            c["cmd"] = ["commit"] + (["--copy"] if kind == "dir-copy" else [])
        c["kind"] = kind
        out.append(c)
    return out


def compare_final(clean, final):
    v = []
    if s1eval.logical(clean) != s1eval.logical(final):
        v.append("logical workspace content after the retry differs from a commit that never failed")
    if s1eval.recorded(clean) != s1eval.recorded(final):
        v.append("checksums recorded after the retry differ from a commit that never failed: %s vs %s" % (
            sorted(s1eval.recorded(final).items())[:2], sorted(s1eval.recorded(clean).items())[:2]))
    have = set(n for n, d, m in final["cache"])
    for n, d, m in clean["cache"]:
        if n not in have:
            v.append("object %s of the clean commit is missing after the retry" % n[:16])
            break
    extra = sorted(set(n for n, d, m in final["cache"]) - set(n for n, d, m in clean["cache"]))
    if extra:
        v.append("the cache holds %d object(s) a commit that never failed does not write, e.g. %s" % (len(extra), extra[0][:16]))
    if sorted(final.get("stray", [])) != sorted(clean.get("stray", [])):
        v.append("stray file left in the cache directory (not there after a commit that never failed): %s" % sorted(final.get("stray", []))[:3])
    return v


def fault_stream(R, dud, drv, stepper, rng, tier, findings):
    b3 = s1.B3(drv)
    total = 0
    try:
        for c in scenarios(rng, tier):
            sc = s2.Scenario(dud, c, b3)
            try:
                before = sc.snapshot()
                stage_old = {sp: (d[0] if d else None) for sp, d in before["stages"].items()}
                rc, raw, se = sc.run(stepper, c["cmd"])
                if rc != 0:
                    R.violation(dict(kind="harness-error", scenario=c["id"], detail="baseline failed: " + se.decode(errors="replace")[-200:]), nofail=True)
                    continue
                clean = sc.snapshot()
                canon, _ = sc.canon(raw)
                sc_by_k = dict(sc.by_k)
                stage_new = {sp: (d[0] if d else None) for sp, d in clean["stages"].items()}
                n = len([l for l in raw if l.split("\t")[0].isdigit()])
                errs = ERRNOS if tier == "thorough" else [errno.EIO]
                reported = False
                for k in range(1, n + 1):
                    for e in errs:
                        sc.restore()
                        rc2, raw2, se2 = sc.run(stepper, c["cmd"], fault=(k, e))
                        after = sc.snapshot()
                        total += 1
                        R.count("%s@%d:%d" % (c["id"], k, e), 2 < k)
                        viol = []
                        lock = os.path.exists(os.path.join(sc.proj.root, ".dud", "lock"))
                        # classify the failed call from THIS run's trace (the order of independent steps,
                        # e.g. Go map iteration over stages, may differ from the baseline run)
                        sc.canon(raw2)
                        run_by_k = dict(sc.by_k)
                        failed_call = run_by_k.get(k, sc_by_k.get(k, "?"))
                        if rc2 != 0:
                            for tag, text in s2.crash_oracle(before, after, stage_old, stage_new, before["meta"], clean["meta"]):
                                viol.append((tag, text))
                            # the lock survives only if the failed call was the unlock itself
                            if lock and failed_call != "unlink L":
                                viol.append(("lock-left", "commit failed (exit %d) and left .dud/lock behind" % rc2))
                            for sp, doc in after["stages"].items():
                                if doc is None or doc[1] is None:
                                    viol.append(("stage-malformed", "stage file %s is not well-formed after the failed commit" % sp.decode()))
                            # remove the cause (nothing to remove: the fault was transient) and retry
                            if lock:
                                os.unlink(os.path.join(sc.proj.root, ".dud", "lock"))
                            rc3, so3, se3 = sc.proj.dud(c["cmd"])
                            if rc3 != 0:
                                viol.append(("retry-failed", "retry after a fault at call %d (%s, errno %d) failed: %s" % (k, failed_call, e, se3.decode(errors="replace")[-160:])))
                            elif re.fullmatch(r"(unlink|rmdir) T\d+", failed_call):
                                pass        # the failed call was itself the removal of a private temp file: the stray file is not dud's to fix
                            else:
                                for t in compare_final(clean, sc.snapshot()):
                                    viol.append(("retry-differs:" + failed_call.split(" ")[0] + (":W" if " W:" in failed_call else ""), t))
                        else:
                            for t in compare_final(clean, after):
                                viol.append(("tolerated-differs", "the fault at call %d was tolerated (exit 0) but: %s" % (k, t)))
                        unknown = []
                        for tag, text in viol:
                            kf = [f for f in findings if f.get("matcher") == "fault-at-link-step" and (tag.startswith("retry-differs") or tag == "lost" or (tag == "retry-failed" and "file does not exist" in text))
                                  and (failed_call.startswith("symlink W:") or failed_call.startswith("unlink W:")
                                       or (failed_call.startswith("chmod O:") and run_by_k.get(k - 1, "").startswith("rename W:")))]
                            if kf:
                                R.known_finding(kf[0]["id"], kf[0]["what"])
                            else:
                                unknown.append(text)
                        if unknown and not reported:
                            reported = True
                            R.violation(dict(kind="property-violated-on-implementation", scenario=c["id"], command=c["cmd"], fault_at=k, errno=e, of=n,
                                             call=failed_call, violations=unknown[:4], case=s1eval.case_json(c)))
                R.sample(dict(scenario=c["id"], calls=n, errnos=errs), limit=2)
            finally:
                sc.cleanup()
    finally:
        b3.close()
    R.cov["fault_points"] = total


def uncommittable_cases(rng, tier, n):
    cases = []
    for i in range(n):
        c = gen.basic_project(rng, "unc-%d" % i, tier, classes=["ascii", "spaceq"], allow_inputs=False, allow_skip=False)
        arts = s1eval.artifacts(c)
        dart = [a for a in arts if "d" in a[1] and "r" not in a[1]]
        files = [e for e in c["init"] if e[0] == "file"]
        kind = rng.choice(["fifo", "foreign", "dangling", "vanished"])
        strat = rng.choice("lc")
        bad = None
        if kind == "vanished" or not dart:
            kind = "vanished"
            p, fl, sp = rng.choice(arts)
            ops = [("rm", p), ("commit", strat, [])]
            if "d" in fl:
                fix = [("mkdir", p)] + [(("mkdir", e[1]) if e[0] == "dir" else ("write", e[1], e[2])) for e in c["init"] if e[1].startswith(p + b"/")]
            else:
                fix = [("write", p, [e for e in c["init"] if e[1] == p][0][2])]
        else:
            inside = [e for e in c["init"] if any(e[1].startswith(a[0] + b"/") for a in dart)]
            host = rng.choice(dart)[0] if not inside else os.path.dirname(rng.choice(inside)[1])
            bad = host + b"/zz_bad%d" % rng.randrange(10)
            if rng.random() < 0.5:
                bad = host + b"/00_bad"           # sorts first: nothing was processed before it (in listing order it may still be anywhere)
            mk = ("fifo", bad) if kind == "fifo" else ("flink", bad, 1 if kind == "foreign" else 0)
            ops = [mk, ("commit", strat, [])]
            fix = [("rm", bad)]
        c["tail_ops"] = []
        c["ops"] = ops + fix + [("commit", strat, [])]
        c["fix_at"] = len(ops)
        c["kind"] = kind
        c["strat"] = strat
        c["bad"] = bad
        cases.append(c)
    return cases


def unc_oracle(run):
    case = run["case"]
    steps = run["steps"]
    v = []
    k = case["fix_at"] - 1          # the failing commit
    if len(steps) <= k:
        return v
    failed = steps[k]
    before = steps[k - 1]["snap"] if k >= 1 else run["initial"]
    if failed["rc"] == 0:
        v.append(("uncommittable-accepted", "`dud commit` exited 0 although %s (%s) cannot be stored" % (case["bad"], case["kind"])))
        return v
    if failed["lock"]:
        v.append(("lock-left", "the failed commit left .dud/lock behind"))
    stage_old = {sp: (d[0] if d else None) for sp, d in before["stages"].items()}
    for tag, text in s2.crash_oracle(before, failed["snap"], stage_old, stage_old, None, None):
        if tag != "torn-stage-file":
            v.append((tag, text))
    for sp, doc in failed["snap"]["stages"].items():
        if doc is None or doc[1] is None:
            v.append(("stage-malformed", "stage file %s is not well-formed after the failed commit" % sp.decode()))
    last = steps[-1]
    if last["op"][0] == "commit" and len(steps) == len(case["ops"]):
        if last["rc"] != 0:
            v.append(("retry-failed", "after removing the cause (%s) the retry failed: %s" % (case["kind"], last["stderr"][-160:])))
        else:
            # same state as a commit that never failed: logical content = the original tree, everything recorded
            want = s1eval.logical(run["initial"])
            got = s1eval.logical(last["snap"])
            if want != got:
                v.append(("retry-differs", "logical workspace content after the retry differs from the original tree"))
            rec = s1eval.recorded(last["snap"])
            if any(d in ("-", "") for d in rec.values()):
                v.append(("retry-differs", "an artifact has no recorded checksum after the retry"))
            # the cache was empty before the failed commit: a commit that never failed writes exactly the objects
            # reachable from the recorded checksums
            reach = set()
            for d in rec.values():
                reach |= s1eval.reachable(last["snap"], d)
            extra = sorted(set(n for n, d, m in last["snap"]["cache"]) - reach)
            if extra:
                v.append(("retry-differs", "after the retry the cache holds %d object(s) that are not part of any recorded artifact (a commit that never "
                                           "failed does not write them), e.g. %s" % (len(extra), extra[0][:16])))
    return v


def environment_causes(R, dud):
    """failures whose cause lies in the environment, not in the data: the cache directory is a link to a disk that is not mounted, the
    cache directory is not writable, the stage file's directory vanished — the commit fails, exits non-zero, leaves the project unlocked
    and, once the cause is removed, succeeds and records what a commit that never failed records"""
    import os, shutil, subprocess, tempfile, yaml
    base = tempfile.mkdtemp(prefix="c04env.", dir=vlib.scratch())
    env = dict(os.environ, XDG_CONFIG_HOME=os.path.join(base, "xdg"), HOME=base, LC_ALL="C")
    viol = []

    def project(name):
        root = os.path.join(base, name)
        os.makedirs(os.path.join(root, "data", "sub"))
        q = dict(cwd=root, env=env, stdout=subprocess.PIPE, stderr=subprocess.PIPE)
        subprocess.run([dud, "init"], **q)
        open(os.path.join(root, "data", "a.bin"), "wb").write(b"a" * 3000)
        open(os.path.join(root, "data", "sub", "b.bin"), "wb").write(b"b" * 70000)
        open(os.path.join(root, "one.bin"), "wb").write(b"one")
        open(os.path.join(root, "s.yaml"), "w").write("outputs:\n  data:\n    is-dir: true\n  one.bin: {}\n")
        subprocess.run([dud, "stage", "add", "s.yaml"], **q)
        return root, q

    def recorded(root):
        d = yaml.safe_load(open(os.path.join(root, "s.yaml"))) or {}
        return d.get("checksum"), {k: (v or {}).get("checksum") for k, v in (d.get("outputs") or {}).items()}
    ref_root, rq = project("ref")
    subprocess.run([dud, "commit"], **rq)
    want = recorded(ref_root)
    for cause in ("cache-link-dangling", "cache-link-dangling-copy", "cache-is-a-file"):
        root, q = project(cause)
        cache = os.path.join(root, ".dud", "cache")
        shutil.rmtree(cache)
        strat = ["--copy"] if cause.endswith("copy") else []
        if cause.startswith("cache-link"):
            os.symlink(os.path.join(base, "unmounted-" + cause, "cache"), cache)
        else:
            open(cache, "w").write("not a directory")
        p = subprocess.run([dud, "commit"] + strat, **q)
        R.count("env-" + cause, True)
        if p.returncode == 0:
            viol.append("`dud commit` exited 0 although the cache directory is unusable (%s)" % cause)
        if os.path.exists(os.path.join(root, ".dud", "lock")):
            viol.append("after the failed `dud commit` (%s: %s) the project is still locked" % (cause, p.stderr.decode(errors="replace")[-120:]))
        for nm, data in (("data/a.bin", b"a" * 3000), ("data/sub/b.bin", b"b" * 70000), ("one.bin", b"one")):
            fp = os.path.join(root, nm)
            if not (os.path.exists(fp) and open(fp, "rb").read() == data):
                viol.append("after the failed `dud commit` (%s) %s no longer holds its bytes" % (cause, nm))
        # the cause is removed
        if cause.startswith("cache-link"):
            os.makedirs(os.path.join(base, "unmounted-" + cause, "cache"))
        else:
            os.unlink(cache)
        p2 = subprocess.run([dud, "commit"] + strat, **q)
        if p2.returncode != 0:
            viol.append("the retried `dud commit` after %s was repaired exits %d: %s" % (cause, p2.returncode, p2.stderr.decode(errors="replace")[-160:]))
        elif recorded(root) != want:
            viol.append("the retried `dud commit` after %s records %s, a commit that never failed records %s" % (cause, recorded(root), want))
    # nobody reads the error output (`dud commit 2>&1 >/dev/null | head -n0`, a log collector that went away): stderr is a pipe without a
    # reader; the commit fails for an ordinary reason (an output is missing / a FIFO in the directory); whatever kills or ends the
    # process, the project is unlocked afterwards and the retry works
    for cause in ("missing-output", "fifo-entry", "missing-output-targeted"):
        root, q = project("deadpipe-" + cause)
        if cause.startswith("missing-output"):
            os.unlink(os.path.join(root, "one.bin"))
        else:
            os.mkfifo(os.path.join(root, "data", "sub", "zz.pipe"))
        rfd, wfd = os.pipe()
        os.close(rfd)
        p = subprocess.run([dud, "commit"] + (["s.yaml"] if cause.endswith("targeted") else []), cwd=root, env=env, stdout=subprocess.DEVNULL, stderr=wfd)
        os.close(wfd)
        R.count("env-deadpipe-" + cause, True)
        if p.returncode == 0:
            viol.append("`dud commit` exited 0 although %s" % cause)
        if os.path.exists(os.path.join(root, ".dud", "lock")):
            viol.append("after the failed `dud commit` (%s) whose error output nobody reads (exit status %d) the project is still locked" % (cause, p.returncode))
        if cause.startswith("missing-output"):
            open(os.path.join(root, "one.bin"), "wb").write(b"one")
        else:
            os.unlink(os.path.join(root, "data", "sub", "zz.pipe"))
        p2 = subprocess.run([dud, "commit"], **q)
        if p2.returncode != 0:
            viol.append("the retried `dud commit` after %s (dead error pipe) exits %d: %s" % (cause, p2.returncode, p2.stderr.decode(errors="replace")[-160:]))
        elif recorded(root) != want:
            viol.append("the retried `dud commit` after %s (dead error pipe) records %s, a commit that never failed records %s" % (cause, recorded(root), want))
    shutil.rmtree(base, ignore_errors=True)
    if viol:
        R.violation(dict(kind="property-violated-on-implementation", scenario="commit failing for a cause in the environment, then retried", violations=viol[:6]))


def main(tier, replay=None):
    R = vlib.Result(PROP, tier, level="proof")
    R.cov["rule"] = ("S2 faults: for directory commits (link/copy, other-device cache, recommit, two-stage pipeline) the k-th file-system mutating call of "
                     "the real binary is failed with EIO (thorough: also ENOSPC, EACCES) for EVERY k; oracle: exit != 0 => nothing lost, objects well named, "
                     "stage files well-formed, unlocked; then retry must succeed and equal the clean commit. S1: an un-committable entry (FIFO, foreign or "
                     "dangling symlink, vanished output) at a random position of generated trees, commit must fail cleanly, cause removed, retry must "
                     "succeed; non-trivial = failure after at least one entry was processed")
    R.cov["checker_cmd"] = "cd lean && lake build DudModel.Props.C04 && lake env lean <audit file: #print axioms of every theorem>"
    R.cov["trusted_base"] = vlib.TRUSTED_COMMON + ["tools/sysstep.c fault injection (the call is skipped and returns -errno)"]
    dud = vlib.build_dud()
    drv = vlib.build_driver()
    stepper = vlib.build_sysstep()
    rng = random.Random(vlib.seed() * 1000 + 4)
    findings = [f for f in vlib.load_findings() if f.get("property") == PROP]
    fault_stream(R, dud, drv, stepper, rng, tier, findings)
    if not replay:
        environment_causes(R, dud)
    cases = uncommittable_cases(rng, tier, 60 if tier == "quick" else 800)
    runs, traces = s1.run_cases(dud, drv, cases, with_model=False)

    def finding_of(run, tag, text):
        kf = [f for f in findings if f.get("matcher") == "retry-after-partial-link-commit"]
        if kf and tag == "retry-failed" and "expected regular file, got link" in text and run["case"]["strat"] == "l":
            return kf[0]["id"], kf[0]["what"]
        return None
    s1eval.evaluate(R, runs, unc_oracle, finding_of, lambda run: run["case"]["kind"] != "vanished")
    R.cov["uncommittable_kinds"] = {k: sum(1 for c in cases if c["kind"] == k) for k in set(c["kind"] for c in cases)}
    R.absorb_audit(vlib.lean_audit(PROP))
    return R.finish()
