"""C19 — a copy checkout never succeeds with corrupted bytes."""
import vlib, s1, gen, s1eval

PROP = "C19"


def make_cases(rng, tier, n):
    cases, stats = [], {}
    for i in range(n):
        c = gen.basic_project(rng, "cor-%d" % i, tier, stats=stats, allow_skip=False, allow_inputs=False)
        kind = rng.choice(["flip", "truncate", "extend", "truncate0", "other"])
        size = rng.choice([1, 2, 300, 65536, 65537])
        if kind == "truncate0":
            spec = "g:1:0"
        else:
            spec = "g:%d:%d" % (rng.randrange(7000, 9000), size)
        keep = [b"workdir", b"workdir/inner"] if c.get("cwd") else []
        ops = [("commit", rng.choice("lc"), []), ("corrupt", rng.randrange(200), spec)]
        if rng.random() < 0.5:
            ops.append(("clone", keep))
        else:
            for p, fl, sp in s1eval.artifacts(c):
                ops.append(("rm", p))
        ops.append(("checkout", "c", False, []))
        if rng.random() < 0.4:
            ops.append(("checkout", "c", False, []))       # a retry must not succeed either
        c["ops"] = ops
        c["kind"] = kind
        stats["kind_" + kind] = stats.get("kind_" + kind, 0) + 1
        cases.append(c)
    return cases, stats


def oracle(run):
    steps = run["steps"]
    v = []
    if len(steps) < 3 or steps[0]["rc"] != 0:
        return v
    committed = s1eval.logical(steps[0]["snap"])
    corrupted = set(steps[1]["corrupted"])
    if not corrupted:
        return v
    rec = s1eval.recorded(steps[0]["snap"])
    referenced = set()
    for p, d in rec.items():
        referenced |= s1eval.reachable(steps[0]["snap"], d)
    hit = corrupted & referenced
    for st in steps[2:]:
        if st["op"][0] != "checkout":
            continue
        if hit and st["rc"] == 0:
            # success is only acceptable if no file with wrong bytes was placed
            got = s1eval.logical(st["snap"])
            wrong = [p for p, val in got.items() if val[0] == "f" and p in committed and committed[p] != val]
            v.append(("success-with-corruption", "checkout --copy exited 0 although object(s) %s are corrupted; files with wrong bytes: %s" % (sorted(hit)[:2], wrong[:3])))
    return v


def main(tier, replay=None):
    return s1eval.generic_main(PROP, tier, replay, make_cases, oracle, None,
                               nontrivial=lambda run: len(run["steps"]) > 1 and bool(run["steps"][1]["corrupted"]),
                               rule="S1: committed artifacts, one file object of the cache corrupted (flip / truncate / extend / empty / other bytes), "
                                    "workspace wiped, checkout --copy (and a retry): must exit non-zero; non-trivial = a referenced object was corrupted",
                               seed_salt=19, n_quick=100, n_thorough=1500)
