"""C19 — a copy checkout never succeeds with corrupted bytes."""
import vlib, s1, gen, s1eval

PROP = "C19"


def make_cases(rng, tier, n):
    cases, stats = [], {}
    for i in range(n):
        if i % 50 == 6:
            # MANY stages (a multiple of 256, and one more) whose outputs all share one object, and that object is damaged: every one
            # of them fails; whatever the command counts, its exit status says so
            ns = [256, 257, 512][(i // 50) % 3]
            spec0 = "g:%d:%d" % (rng.randrange(1000), rng.choice([40, 700]))
            c = dict(id="cor-%d" % i, cache="rel", timeout=300,
                     init=[("file", b"m/%03d.bin" % j, spec0) for j in range(ns)],
                     stages=[(b"m%03d.yaml" % j, dict(cmd=b"", wd=b".", out=[(b"m/%03d.bin" % j, "")])) for j in range(ns)])
            c["ops"] = [("commit", "c", []), ("corrupt", "p" + s1.hx(b"m/000.bin"), "g:%d:%d" % (rng.randrange(7000, 9000), rng.choice([1, 40, 700]))),
                        ("clone", []), ("checkout", "c", False, []), ("checkout", "c", False, [])]
            c["kind"] = "flip-many-stages"
            stats["kind_many_stages_%d" % ns] = 1
            cases.append(c)
            continue
        if i % 10 == 8:
            # the object is EXTENDED by a hole (preallocation, truncate -s +N): its former length a whole number of blocks; also a name
            # that leaves no room for a suffix
            n0 = [4096, 8192, 65536, 12288][(i // 10) % 4]
            sd = rng.randrange(1000)
            nm = [b"holey.bin", b"H" * 250 + b".bin", b"h.bin", b"N" * 244][(i // 10) % 4]
            c = dict(id="cor-%d" % i, cache=rng.choice(["rel", "abs"]), init=[("file", nm, "g:%d:%d" % (sd, n0)), ("dir", b"hd"), ("file", b"hd/" + nm, "g:%d:%d" % (sd + 1, n0))],
                     stages=[(b"holey.yaml", dict(cmd=b"", wd=b".", out=[(nm, "")])), (b"hd.yaml", dict(cmd=b"", wd=b".", out=[(b"hd", "d")]))])
            which = nm if (i // 10) % 2 == 0 else b"hd/" + nm
            c["ops"] = [("commit", rng.choice("lc"), []), ("corrupt", "p" + s1.hx(which), "sp:%d:%d:%d" % (sd + (0 if which == nm else 1), n0, n0 + rng.choice([4096, 65536]))),
                        ("clone", []), ("checkout", "c", False, []), ("checkout", "c", False, [])]
            c["kind"] = "extend-hole"
            stats["kind_extend_hole"] = stats.get("kind_extend_hole", 0) + 1
            cases.append(c)
            continue
        wide = (i % 10 == 4)
        c = gen.basic_project(rng, "cor-%d" % i, tier, stats=stats, allow_skip=False, allow_inputs=False, wide=wide)
        kind = rng.choice(["flip", "truncate", "extend", "truncate0", "other"])
        widefile = None
        if wide:
            # a directory with more entries than any worker pool / batch size: the damaged object belongs to an entry that sorts
            # early, in the middle or late in the listing
            wf = sorted(e[1] for e in c["init"] if e[0] == "file" and b"/wide" in e[1])
            if wf:
                widefile = wf[rng.choice([0, 1, len(wf) // 3, len(wf) // 2, len(wf) - 2])]
                stats["wide_directory"] = stats.get("wide_directory", 0) + 1
        if i % 10 == 7 and len(c["stages"]) >= 2:
            # a pipeline: the later stage takes an output of the earlier one as input; the damaged object belongs to the UPSTREAM
            # stage and only the downstream stage is named on the command line
            up_out = c["stages"][0][1]["out"]
            p_, fl_ = up_out[0]
            c["stages"][-1][1].setdefault("in", []).append((p_, "d" if "d" in fl_ else ""))
            upfiles = sorted(e[1] for e in c["init"] if e[0] == "file" and (e[1] == p_ or e[1].startswith(p_ + b"/")) and
                             not ("r" in fl_ and b"/" in e[1][len(p_) + 1:]))
            if upfiles:
                spec_ = "g:%d:%d" % (rng.randrange(7000, 9000), rng.choice([1, 300, 65537]))
                keep_ = [b"workdir", b"workdir/inner"] if c.get("cwd") else []
                c["ops"] = [("commit", rng.choice("lc"), []), ("corrupt", "p" + s1.hx(rng.choice(upfiles)), spec_), ("clone", keep_),
                            ("checkout", "c", False, [c["stages"][-1][0]])]
                c["kind"] = kind + "-upstream"
                stats["kind_upstream"] = stats.get("kind_upstream", 0) + 1
                cases.append(c)
                continue
        size = rng.choice([1, 2, 300, 65536, 65537])
        if kind == "truncate0":
            spec = "g:1:0"
        else:
            spec = "g:%d:%d" % (rng.randrange(7000, 9000), size)
        keep = [b"workdir", b"workdir/inner"] if c.get("cwd") else []
        if rng.random() < 0.15:
            # the same bytes tracked twice (a pass-through stage): two file artifacts of two stages share one object
            dup = "g:%d:%d" % (rng.randrange(1000), rng.choice([5, 700, 70000]))
            c["init"] += [("file", b"dup_a.bin", dup), ("file", b"dup_b.bin", dup)]
            c["stages"] += [(b"dup_a.yaml", dict(cmd=b"", wd=b".", out=[(b"dup_a.bin", "")])),
                            (b"dup_b.yaml", dict(cmd=b"", wd=b".", out=[(b"dup_b.bin", "")], **{"in": [(b"dup_a.bin", "")]}))]
        ops = [("commit", rng.choice("lc"), []), ("corrupt", ("p" + s1.hx(widefile)) if widefile else rng.randrange(200), spec)]
        r = rng.random()
        if any(sp_ == b"dup_b.yaml" for sp_, st_ in c["stages"]) and rng.random() < 0.7:
            # the shared object is the corrupted one; the upstream copy is intact in the workspace, the downstream one is gone
            ops = [("commit", "c", []), ("corrupt", "p" + s1.hx(b"dup_a.bin"), spec), ("rm", b"dup_b.bin"), ("checkout", "c", False, [b"dup_b.yaml"])]
            c["ops"] = ops
            c["kind"] = kind + "-shared"
            stats["kind_shared"] = stats.get("kind_shared", 0) + 1
            cases.append(c)
            continue
        if r < 0.35:
            ops.append(("clone", keep))
        elif r < 0.6:
            for p, fl, sp in s1eval.artifacts(c):
                ops.append(("rm", p))
        elif r < 0.8:
            # only some artifacts are gone; the others stay as they are (links after a link commit, copies after a copy commit)
            arts_ = s1eval.artifacts(c)
            for p, fl, sp in rng.sample(arts_, max(1, len(arts_) // 2)):
                ops.append(("rm", p))
        # else: the workspace stays as committed
        ops.append(("checkout", "c", False, []))
        if rng.random() < 0.4 or i % 5 == 2:
            ops.append(("checkout", "c", False, []))       # a retry must not succeed either
        c["ops"] = ops
        c["kind"] = kind
        stats["kind_" + kind] = stats.get("kind_" + kind, 0) + 1
        cases.append(c)
    return cases, stats


def oracle(run):
    steps = run["steps"]
    v = []
    if len(steps) < 3 or steps[0]["rc"] != 0:
        return v
    committed = s1eval.logical(steps[0]["snap"])
    corrupted = set(steps[1]["corrupted"])
    if not corrupted:
        return v
    rec = s1eval.recorded(steps[0]["snap"])
    referenced = set()
    for p, d in rec.items():
        referenced |= s1eval.reachable(steps[0]["snap"], d)
    hit = corrupted & referenced
    prev = steps[1]["snap"]
    dud_placed = {}          # regular files that an earlier `dud checkout` (failed or not) put into the workspace
    for st in steps[2:]:
        ws_now_, _ = s1eval.parse_snap(st["snap"])
        if st["op"][0] != "checkout":
            for p_ in list(dud_placed):
                if ws_now_.get(p_) != dud_placed[p_]:
                    del dud_placed[p_]          # replaced or removed by the user since
            prev = st["snap"]
            continue
        ws_prev_, _ = s1eval.parse_snap(prev)
        earlier = dict(dud_placed)
        for p_, val_ in ws_now_.items():
            if val_[0] == "f" and ws_prev_.get(p_) != val_:
                dud_placed[p_] = val_
        if st["rc"] == 0 and not st["op"][3]:
            # success, with bytes in place that an EARLIER invocation of dud put there and that do not hash to the recorded checksum
            stale = [p_ for p_, val_ in earlier.items() if ws_now_.get(p_) == val_ and p_ in committed and committed[p_][0] == "f"
                     and committed[p_][1] != val_[1]]
            if stale:
                v.append(("success-over-own-bad-copy", "checkout --copy exited 0 while %s, placed by an earlier (failed) `dud checkout --copy`, holds bytes whose "
                          "digest differs from the recorded checksum" % stale[:3]))
        if hit and st["rc"] == 0:
            # the files checkout has to produce from a corrupted object: committed with a digest in `hit`, and absent or a link now
            ws_prev, _ = s1eval.parse_snap(prev)
            # the files the artifacts TRACK (a non-recursive directory tracks its direct entries only)
            tracked_ = set()
            for ap_, fl_, sp_ in s1eval.artifacts(run["case"]):
                if "s" not in fl_:
                    tracked_ |= set(s1eval.logical(steps[0]["snap"], under=ap_, skip_dirs_top=("r" in fl_)))
            needs_read = [p for p, val in committed.items() if val[0] == "f" and val[1] in hit and p in tracked_
                          and (p not in ws_prev or ws_prev[p][0] != "f")]
            ws_now, _ = s1eval.parse_snap(st["snap"])
            wrong = [p for p, val in ws_now.items() if val[0] == "f" and p in committed and committed[p][0] == "f" and committed[p][1] != val[1]
                     and (p not in ws_prev or ws_prev[p] != val)]
            if wrong:
                v.append(("wrong-bytes-placed", "checkout --copy exited 0 and placed bytes whose digest differs from the recorded checksum: %s (corrupted object(s) %s)" % (
                    wrong[:3], sorted(hit)[:2])))
            elif needs_read:
                v.append(("success-with-corruption", "checkout --copy exited 0 although it had to produce %s from corrupted object(s) %s" % (needs_read[:3], sorted(hit)[:2])))
        prev = st["snap"]
    return v


def flags_extra(R, dud, drv, rng, tier, runs):
    """the exit status of a copy checkout over a damaged object under every boolean flag the help text lists (global ones included)"""
    import os, re, shutil, subprocess, tempfile
    base = tempfile.mkdtemp(prefix="c19fl.", dir=vlib.scratch())
    env = dict(os.environ, XDG_CONFIG_HOME=os.path.join(base, "xdg"), HOME=base, LC_ALL="C")
    hp = subprocess.run([dud, "checkout", "--help"], env=env, stdout=subprocess.PIPE, stderr=subprocess.STDOUT).stdout
    flags = []
    for line in s1.ROOT_WARNING.sub(b"", hp).decode(errors="replace").splitlines():
        m = re.match(r"^\s+(?:-\w, )?(--[a-z][-a-z0-9]*)(\s+\S+)?\s{2,}", line)
        if m and m.group(1) not in ("--help", "--copy") and not (m.group(2) or "").strip():
            flags.append(m.group(1))
    viol = []
    for k, fl in enumerate([None] + sorted(set(flags))):
        root = os.path.join(base, "p%d" % k)
        os.makedirs(os.path.join(root, "data", "sub"))
        q = dict(cwd=root, env=env, stdout=subprocess.PIPE, stderr=subprocess.PIPE)
        subprocess.run([dud, "init"], **q)
        open(os.path.join(root, "data", "a.bin"), "wb").write(b"a" * 3000)
        open(os.path.join(root, "data", "sub", "b.bin"), "wb").write(b"b" * 70000)
        open(os.path.join(root, "s.yaml"), "w").write("outputs:\n  data:\n    is-dir: true\n")
        subprocess.run([dud, "stage", "add", "s.yaml"], **q)
        subprocess.run([dud, "commit"], **q)
        tgt = os.path.realpath(os.path.join(root, "data", "sub", "b.bin"))
        os.chmod(tgt, 0o644)
        open(tgt, "r+b").write(b"X")          # one byte flipped in the object
        os.chmod(tgt, 0o444)
        shutil.rmtree(os.path.join(root, "data"))
        # global flags go in front of the sub-command as well as behind it
        for args in ([[fl, "checkout", "--copy"], ["checkout", "--copy", fl]] if fl else [["checkout", "--copy"]]):
            p = subprocess.run([dud] + args, **q)
            R.count("flag-%s-%s" % (fl, args[0]), True)
            bad = os.path.join(root, "data", "sub", "b.bin")
            if p.returncode == 0:
                viol.append("`dud %s` exited 0 although the object of data/sub/b.bin is damaged%s" % (
                    " ".join(args), "; the damaged bytes are in the workspace" if os.path.exists(bad) else ""))
            shutil.rmtree(os.path.join(root, "data"), ignore_errors=True)
            for junk in ("dud.pprof", "dud.trace"):
                if os.path.lexists(os.path.join(root, junk)):
                    os.unlink(os.path.join(root, junk))
    shutil.rmtree(base, ignore_errors=True)
    if viol:
        R.violation(dict(kind="property-violated-on-implementation", scenario="copy checkout over a damaged object with each boolean flag", violations=viol[:6]))


def main(tier, replay=None):
    return s1eval.generic_main(PROP, tier, replay, make_cases, oracle, None,
                               nontrivial=lambda run: len(run["steps"]) > 1 and bool(run["steps"][1]["corrupted"]),
                               rule="S1: committed artifacts, one file object of the cache corrupted (flip / truncate / extend / empty / other bytes), "
                                    "workspace wiped, checkout --copy (and a retry): must exit non-zero; non-trivial = a referenced object was corrupted",
                               seed_salt=19, n_quick=100, n_thorough=1500, extra=flags_extra)
