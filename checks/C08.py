"""C08 — pipelines run in dependency order, each stage once at most; cycles refused."""
import itertools, random
import vlib, s1, gen, s1eval

PROP = "C08"


def upstream(edges, targets):
    seen = set(targets)
    todo = list(targets)
    while todo:
        x = todo.pop()
        for (j, i) in edges:
            if i == x and j not in seen:
                seen.add(j)
                todo.append(j)
    return seen


def on_cycle(edges, n):
    cyc = set()
    for x in range(n):
        if x in (upstream(edges, [j for (j, i) in edges if i == x]) if any(i == x for j, i in edges) else set()):
            cyc.add(x)
    return cyc


def make_cases(rng, tier, n):
    cases, stats = [], {}
    for c_i in range(n):
        if c_i % 20 in (7, 17):
            sfx = [b".log", b"-v2.txt", b" copy", b".d"][(c_i // 20) % 4]
            if c_i % 20 == 7:
                # an output whose name is a directory output's name plus a character that sorts before '/', owned by a THIRD stage; the
                # consumer reads two and three levels below the directory: its owner is upstream whatever the names around it
                deep = b"out/d0/sub/deep/h" if (c_i // 20) % 2 else b"out/d0/sub/g"
                c = dict(id="dag-%d" % c_i, ops=[], cache=rng.choice(["rel", "abs"]), cyclic=False, nested=True, kinds=["dir", "file", "file"], edges=[(0, 2)],
                         init=[("file", b"src/s0.txt", "g:%d:9" % rng.randrange(1000)), ("file", b"src/s1.txt", "g:%d:9" % rng.randrange(1000))],
                         stages=[(b"st0.yaml", dict(cmd=b"vcmd S0 out/d0/ -- src/s0.txt", wd=b".", out=[(b"out/d0", "d")], **{"in": [(b"src/s0.txt", "")]})),
                                 (b"st1.yaml", dict(cmd=b"vcmd S1 out/d0" + sfx.replace(b" ", b"_") + b" -- src/s1.txt", wd=b".", out=[(b"out/d0" + sfx.replace(b" ", b"_"), "")],
                                                    **{"in": [(b"src/s1.txt", "")]})),
                                 (b"st2.yaml", dict(cmd=b"vcmd S2 out/o2.txt -- " + deep, wd=b".", out=[(b"out/o2.txt", "")], **{"in": [(deep, "")]}))])
                c["ops"] = [("run", False, [b"st2.yaml"]), ("status", [b"st2.yaml"]), ("commit", rng.choice("lc"), [b"st2.yaml"]), ("run", False, [b"st2.yaml", b"st1.yaml"]),
                            ("commit", "l", []), ("clone", []), ("checkout", rng.choice("lc"), False, [b"st2.yaml"]), ("status", [])]
                stats["prefix_named_output"] = stats.get("prefix_named_output", 0) + 1
            else:
                # the ONLY edge between two stages is a skip-cache output: every command that walks upstream walks through it
                c = dict(id="dag-%d" % c_i, ops=[], cache=rng.choice(["rel", "abs"]), cyclic=False, nested=False, kinds=["file", "file", "file"], edges=[(0, 1), (1, 2)],
                         init=[("file", b"src/s0.txt", "g:%d:9" % rng.randrange(1000))],
                         stages=[(b"st0.yaml", dict(cmd=b"vcmd S0 out/o0.txt -- src/s0.txt", wd=b".", out=[(b"out/o0.txt", "")], **{"in": [(b"src/s0.txt", "")]})),
                                 (b"st1.yaml", dict(cmd=b"vcmd S1 out/m1.json -- out/o0.txt", wd=b".", out=[(b"out/m1.json", "s")], **{"in": [(b"out/o0.txt", "")]})),
                                 (b"st2.yaml", dict(cmd=b"vcmd S2 out/o2.txt -- out/m1.json", wd=b".", out=[(b"out/o2.txt", "")], **{"in": [(b"out/m1.json", "")]}))])
                c["ops"] = [("run", False, []), ("commit", rng.choice("lc"), []), ("push", False, [b"st2.yaml"]), ("rm", b"out/o0.txt"), ("rm", b"out/o2.txt"), ("wipecache",),
                            ("fetch", False, [b"st2.yaml"]), ("checkout", rng.choice("lc"), False, [b"st2.yaml"]), ("status", [b"st2.yaml"]), ("run", False, [b"st2.yaml"])]
                stats["skip_cache_only_edge"] = stats.get("skip_cache_only_edge", 0) + 1
            stats["stages_3"] = stats.get("stages_3", 0) + 1
            cases.append(c)
            continue
        ns = rng.choice([2, 3, 3, 4, 4] + ([5, 6, 8] if tier == "thorough" else [5]))
        cyclic = rng.random() < 0.2
        force_sink = (c_i % 8 == 5)
        if force_sink:
            cyclic = False
        c = gen.pipeline_project(rng, "dag-%d" % c_i, ns, cyclic=cyclic, tier=tier, sink=(rng.random() < 0.3 or force_sink))
        names = [sp for sp, st in c["stages"]]
        if c_i % 4 == 1 and not c.get("via_symlink"):
            # dud is invoked from a sub-directory; stage arguments are spelled relative to it
            c["cwd"] = b"workdir/inner"
            c["init"] += [("dir", b"workdir"), ("dir", b"workdir/inner")]
        ops = []
        if not cyclic:
            ops.append(("run", False, []))
        fwd = [(j, i) for (j, i) in c["edges"] if j < i and j < ns and i < ns]
        if not cyclic and fwd and rng.random() < 0.2:
            # the upstream stage is re-run and committed ON ITS OWN, its source changes again, then the downstream stage is
            # requested first: it must still wait for the stage that owns its input
            j, i = rng.choice(fwd)
            srcs = [p for p, fl in c["stages"][j][1].get("in", []) if p.startswith(b"src/") or b"_cfg/" in p]
            if srcs:
                ops += [("commit", rng.choice("lc"), []),
                        ("write", srcs[0], "g:%d:9" % rng.randrange(5000, 6000)), ("run", False, [names[j]]), ("commit", rng.choice("lc"), [names[j]]),
                        ("write", srcs[0], "g:%d:9" % rng.randrange(6000, 7000)), ("run", False, [names[i], names[j]])]
                stats["recommitted_upstream"] = stats.get("recommitted_upstream", 0) + 1
        if force_sink:
            # everything is committed, then ONLY the leaf that keeps nothing in the cache itself is named: its whole upstream is in scope
            ops += [("commit", rng.choice("lc"), []), ("push", False, [names[-1]]), ("wipecache",), ("fetch", False, [names[-1]]),
                    ("checkout", rng.choice("lc"), False, [names[-1]])]
            stats["sink_only_target"] = stats.get("sink_only_target", 0) + 1
        for _ in range(rng.randrange(1, 5)):
            k = rng.choice(["run", "run", "run_s", "commit", "status", "checkout", "edit", "push", "fetch", "graph", "pull"])
            tg = []
            if rng.random() < 0.6:
                tg = rng.sample(names, rng.randrange(1, min(3, len(names)) + 1))
            if k == "run":
                ops.append(("run", False, tg))
            elif k == "run_s":
                ops.append(("run", True, tg))
            elif k == "commit":
                ops.append(("commit", rng.choice("lc"), tg))
            elif k == "status":
                ops.append(("status", tg))
            elif k == "graph":
                ops.append(("graph", tg))
            elif k == "checkout":
                ops.append(("checkout", rng.choice("lc"), rng.random() < 0.4, tg))
            elif k in ("push", "fetch"):
                ops.append((k, rng.random() < 0.4, tg))
            elif k == "pull":
                ops += [("commit", "l", []), ("push", False, []), ("pull", rng.choice("lc"), rng.random() < 0.3, tg)]
            elif k == "edit":
                srcs = [e for e in c["init"] if e[0] == "file"]
                if srcs:
                    ops.append(("write", rng.choice(srcs)[1], "g:%d:%d" % (rng.randrange(1000), rng.choice([1, 5, 50]))))
        if not cyclic and rng.random() < 0.25:
            # a stage whose command fails (after logging itself): the run stops with an error, and the command ran ONCE
            i = rng.randrange(ns)
            code = rng.choice([1, 2, 126, 126, 127, 255])
            ops += [("write", e[1], "g:%d:6" % rng.randrange(7000, 8000)) for e in c["init"] if e[0] == "file"][:2]
            ops += [("setcmd", names[i], b"vfail S%d %d" % (i, code)), ("run", False, [])]
            stats["failing_command_%d" % code] = stats.get("failing_command_%d" % code, 0) + 1
        c["ops"] = ops
        stats["stages_%d" % ns] = stats.get("stages_%d" % ns, 0) + 1
        stats["cyclic"] = stats.get("cyclic", 0) + (1 if cyclic else 0)
        stats["nested_inputs"] = stats.get("nested_inputs", 0) + (1 if c["nested"] else 0)
        stats["edges_%d" % min(len(c["edges"]), 6)] = stats.get("edges_%d" % min(len(c["edges"]), 6), 0) + 1
        cases.append(c)
    return cases, stats


def oracle(run):
    case = run["case"]
    edges = case["edges"]
    names = [sp for sp, st in case["stages"]]
    n = len(names)
    cyc = on_cycle(edges, n)
    v = []
    prev = run["initial"]
    for st in run["steps"]:
        op = st["op"]
        what = "`%s`" % s1.op_text(op)
        if op[0] in ("run", "commit", "checkout", "status", "push", "fetch", "graph", "pull"):
            tg = op[2] if op[0] in ("run", "push", "fetch", "commit") else (op[3] if op[0] in ("checkout", "pull") else op[1])
            single = (op[0] in ("run", "push", "fetch") and op[1]) or (op[0] in ("checkout", "pull") and op[2])
            targets = [names.index(t) for t in tg] if tg else list(range(n))
            if not tg and op[0] != "run":
                single = False          # checkout/push/fetch ignore the flag without explicit targets; run honours it
            scope = set(targets) if single else upstream(edges, targets)
            # a cycle met by a traversal that follows edges => error, and nothing on the cycle executes
            meets_cycle = (not single) and bool(scope & cyc)
            if meets_cycle and st["rc"] == 0:
                v.append(("cycle-accepted", "%s exited 0 although the traversal meets a cycle (stages %s)" % (what, sorted(cyc))))
            if op[0] == "run" and st["log"] is not None:
                log = [int(x[1:]) for x in st["log"]]
                if len(set(log)) != len(log):
                    v.append(("ran-twice", "%s executed a stage twice: %s" % (what, log)))
                for pos, x in enumerate(log):
                    if x not in scope:
                        v.append(("out-of-scope", "%s executed stage %d outside the requested scope %s" % (what, x, sorted(scope))))
                    if not single:
                        for (j, i) in edges:
                            if i == x and j in log and log.index(j) > pos:
                                v.append(("order", "%s executed stage %d before its upstream stage %d: %s" % (what, x, j, log)))
                    if x in cyc and not single:
                        v.append(("cycle-executed", "%s executed stage %d which is on a cycle" % (what, x)))
            # a successful push traversed its scope: every cached object a stage of the scope recorded is on the remote
            if op[0] == "push" and st["rc"] == 0 and not meets_cycle:
                have = set(n_ for n_, d_, m_ in st["snap"]["cache"])
                rem = set(st["snap"]["remote"])
                for k_ in sorted(scope):
                    parsed = (st["snap"]["stages"].get(names[k_]) or (None, None))[1] or {}
                    for o, a in (parsed.get("outputs") or {}).items():
                        cs = (a or {}).get("checksum")
                        if cs and not (a or {}).get("skip-cache") and cs in have and cs not in rem:
                            v.append(("scope-not-pushed", "%s exited 0 but the object of output %s of stage %s, which is in its scope (requested or "
                                      "upstream), is not on the remote" % (what, o, names[k_].decode())))
            # a successful commit committed every stage of its scope: each records a checksum for all its outputs
            if op[0] == "commit" and st["rc"] == 0 and not meets_cycle:
                for k_ in sorted(scope):
                    doc = st["snap"]["stages"].get(names[k_])
                    parsed = doc[1] if doc else None
                    outs = (parsed or {}).get("outputs") or {}
                    missing = [o for o, a in outs.items() if not (a or {}).get("checksum")]
                    if parsed is None or missing:
                        v.append(("scope-not-committed", "%s exited 0 but stage %s, which is in its scope (requested or upstream), records no checksum for %s"
                                  % (what, names[k_].decode(), missing or "its outputs")))
            # stages outside the scope keep their stage files; outputs of stages outside the scope are untouched
            if op[0] != "run":
                for k_, sp in enumerate(names):
                    if k_ in scope:
                        continue
                    a, b = prev["stages"].get(sp), st["snap"]["stages"].get(sp)
                    if a is not None and b is not None and a[0] != b[0]:
                        v.append(("foreign-stage-file", "%s rewrote the stage file of %s which is outside its scope" % (what, sp.decode())))
                    if not case["stages"][k_][1]["out"]:
                        continue
                    outp = case["stages"][k_][1]["out"][0][0]
                    if s1eval.logical(prev, under=outp) != s1eval.logical(st["snap"], under=outp) and op[0] in ("commit", "checkout"):
                        pw = {p: x for p, x in s1eval.parse_snap(prev)[0].items() if p == outp or p.startswith(outp + b"/")}
                        cw = {p: x for p, x in s1eval.parse_snap(st["snap"])[0].items() if p == outp or p.startswith(outp + b"/")}
                        if pw != cw:
                            v.append(("foreign-artifact", "%s touched the output of %s which is outside its scope" % (what, sp.decode())))
        prev = st["snap"]
        if len(v) > 8:
            break
    return v


def exhaustive(R, dud, drv, rng, tier, runs):
    """thorough: every labelled DAG on <= 4 stages (edges only from lower to higher index) x one run"""
    if tier != "thorough":
        return
    cases = []
    k = 0
    for n in (2, 3, 4):
        pairs = [(j, i) for i in range(n) for j in range(i)]
        for mask in range(1 << len(pairs)):
            edges = [p for b, p in enumerate(pairs) if mask >> b & 1]
            c = gen.pipeline_project(rng, "alldag-%d" % k, n, tier="quick", all_edges=edges)
            names = [sp for sp, st in c["stages"]]
            tg = rng.sample(names, rng.randrange(1, n + 1))
            c["ops"] = [("run", False, []), ("write", c["init"][0][1], "g:77:7") if c["init"] else ("status", []), ("run", rng.random() < 0.3, tg)]
            cases.append(c)
            k += 1
    rs, tr = s1.run_cases(dud, drv, cases)
    s1eval.evaluate(R, rs, oracle, None, lambda run: bool(run["case"]["edges"]))
    R.cov["exhaustive_dags_upto4"] = len(cases)


def main(tier, replay=None):
    return s1eval.generic_main(PROP, tier, replay, make_cases, oracle, None,
                               nontrivial=lambda run: bool(run["case"]["edges"]),
                               rule="S3: generated pipelines of 2-5 (thorough: -8, plus every labelled DAG on <= 4 stages) deterministic stages with real "
                                    "commands logging their execution; diamonds, skip connections, inputs nested inside directory outputs, cyclic graphs; "
                                    "target subsets, --single-stage; run/commit/checkout/status/push/fetch/graph; oracle on the execution log "
                                    "(once, owners first, within scope, nothing on a cycle) and on stage files/outputs outside the scope; "
                                    "non-trivial = graph has at least one edge", seed_salt=8, n_quick=120, n_thorough=1500, extra=exhaustive)
