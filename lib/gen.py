"""Case generators for the CLI-history streams. Every random choice comes from one random.Random."""
import random

SIZES_Q = [0, 1, 10, 300, 1000, 65535, 65536, 65537]
SIZES_T = SIZES_Q + [200000, 1 << 20]

ASCII = [b"a", b"b.txt", b"data_1", b"x-y", b"Z", b"file.tar.gz", b"0", b"-dash", b".hidden", b"UPPER"]
SPACEQ = [b"a b", b"it's", b'"q"', b" lead", b"trail ", b"two  spaces", b"back\\slash", b"per%cent", b"semi;colon"]
YAMLISH = [b"null", b"~", b"true", b"1e3", b"- x", b"a: b", b"#c", b"{x}", b"[y]", b"&a", b"*b", b"!t", b"|", b">", b"@at",
           b"`tick", b"yes", b"0x1f", b"<<", b"? q", b"a #b", b"k:", b"'s'"]
CONTROL = [b"a\tb", b"a\nb", b"\x01x", b"y\x1f", b"\rz", b"\x08\x0c"]
HTML = [b"<a>&", b"x<y", b"p&q>"]
UNICODE = ["\u00e9".encode(), "\u65e5\u672c\u8a9e".encode(), "\U0001F600".encode(), "a\u2028b".encode(), "\u2029".encode(),
           "\u00fc \u00df".encode(), "\u00a0nbsp".encode(), "\ufffdrep".encode()]
LONG = [b"L" * 200, ("\u9577" * 60).encode()]
# ordinary names that look like something else to careless code: dots that are not "." / "..", and the field names of the
# manifest and stage schemas (old and new), e.g. the `Contents` directory of a macOS bundle
DOTTY = [b"report..final.txt", b"..hidden", b"x..", b"...", b"a.b..c", b".a.", b"..."]
FIELDS = [b"Contents", b"Path", b"Checksum", b"IsDir", b"contents", b"path", b"checksum", b"is-dir", b"skip-cache", b"outputs", b"SkipCache",
          b"DisableRecursion", b"disable-recursion"]
SAFE_CLASSES = dict(ascii=ASCII, spaceq=SPACEQ, yamlish=YAMLISH, control=CONTROL, html=HTML, unicode=UNICODE, long=LONG, dotty=DOTTY,
                    fields=FIELDS)

UNSAFE = [b"\xff", b"a\xc3\x28", b"a\x7fb", b"n\xc2\x85l", b"c\xc2\x9f", b"\xef\xbf\xbe", b"\xef\xbb\xbfbom", b"\xed\xa0\x80", b"\xf8x"]


def pick_name(rng, classes, used):
    for _ in range(50):
        cls = rng.choice(classes)
        base = rng.choice(SAFE_CLASSES[cls]) if cls in SAFE_CLASSES else rng.choice(UNSAFE)
        n = base if rng.random() < 0.6 else base + b"%d" % rng.randrange(100)
        if n not in used and n not in (b".", b".."):
            used.add(n)
            return n, cls
    n = b"n%d" % len(used)
    used.add(n)
    return n, "ascii"


def gen_tree(rng, prefix, depth, fanout, budget, classes, sizes, stats=None, allow_empty=True):
    """entries under directory `prefix`: list of (kind, path, content?)"""
    out = []
    used = set()
    n = rng.randrange(0 if allow_empty else 1, fanout + 1)
    for _ in range(n):
        if budget[0] <= 0:
            break
        budget[0] -= 1
        name, cls = pick_name(rng, classes, used)
        if stats is not None:
            stats["name_" + cls] = stats.get("name_" + cls, 0) + 1
        p = prefix + b"/" + name
        if depth > 1 and rng.random() < 0.3:
            out.append(("dir", p))
            if stats is not None:
                stats["dirs"] = stats.get("dirs", 0) + 1
            out += gen_tree(rng, p, depth - 1, fanout, budget, classes, sizes, stats)
        else:
            size = rng.choice(sizes)
            seed = rng.randrange(6) if rng.random() < 0.3 else rng.randrange(1000)   # duplicates on purpose
            kind = "g"
            if rng.random() < 0.08:
                kind, size = "z", rng.choice([4096, 65536, 70000, 131072, 200000])     # zero-padded tail / all zeros
            out.append(("file", p, "%s:%d:%d" % (kind, seed, size)))
            if stats is not None:
                stats["files"] = stats.get("files", 0) + 1
                stats["size_%d" % size] = stats.get("size_%d" % size, 0) + 1
    return out


def basic_project(rng, cid, tier, classes=None, stats=None, n_stages=None, allow_skip=True, allow_norec=True,
                  allow_inputs=True, dir_inputs=False, wide=False):
    """A project with 1-3 independent stages: directory / file / non-recursive / skip-cache outputs,
    plain file inputs."""
    thorough = tier == "thorough"
    classes = classes or list(SAFE_CLASSES)
    sizes = SIZES_T if thorough else SIZES_Q
    init = []
    stages = []
    n = n_stages or rng.choice([1, 1, 2, 3])
    for s in range(n):
        outs = []
        ins = []
        base = (b"st%d" % s) if rng.random() < 0.5 else (b"deep/er/st%d" % s)
        kinds = rng.sample(["dir", "file", "norec", "skip"], rng.randrange(1, 4))
        if wide and "dir" not in kinds:
            kinds = ["dir"] + kinds          # a wide case always has the plain directory output that gets the many files
        for k in kinds:
            if k == "dir" or (k == "norec" and allow_norec):
                p = base + b"_" + k.encode()
                init.append(("dir", p))
                budget = [rng.choice([3, 8, 25] if not thorough else [5, 20, 80])]
                init += gen_tree(rng, p, rng.choice([1, 2, 4] if not thorough else [2, 4, 6]),
                                 rng.choice([2, 5, 12] if not thorough else [3, 10, 40]), budget, classes, sizes, stats)
                if wide and k == "dir":
                    # more objects than the shared worker pool / the chmod fan-out threshold (64)
                    for j in range(rng.choice([70, 100, 131])):
                        init.append(("file", p + b"/wide%03d.dat" % j, "g:%d:%d" % (rng.randrange(100000), rng.choice([1, 9, 40]))))
                    wide = False
                if k == "norec" and rng.random() < 0.7:
                    # several sub-directories next to each other in the listing: none of them may be descended into
                    for j in range(rng.choice([2, 3, 5])):
                        sd = p + b"/nsub%d" % j
                        init.append(("dir", sd))
                        init.append(("file", sd + b"/below%d.txt" % j, "g:%d:%d" % (rng.randrange(1000), rng.choice(sizes[:6]))))
                        if allow_inputs and j == 1 and rng.random() < 0.5:
                            ins.append((sd + b"/below%d.txt" % j, ""))      # owned by nobody: a plain input
                outs.append((p, "dr" if k == "norec" else "d"))
            elif k == "file":
                p = base + b"_f.bin"
                init.append(("file", p, "g:%d:%d" % (rng.randrange(1000), rng.choice(sizes))))
                outs.append((p, ""))
            elif k == "skip" and allow_skip:
                p = base + b"_skip.json"
                init.append(("file", p, "g:%d:%d" % (rng.randrange(1000), rng.choice(sizes[:5]))))
                outs.append((p, "s"))
        if not outs:
            p = base + b"_f.bin"
            init.append(("file", p, "g:%d:%d" % (rng.randrange(1000), rng.choice(sizes))))
            outs.append((p, ""))
        if allow_inputs and rng.random() < 0.5:
            p = b"src/in%d.txt" % s
            init.append(("file", p, "g:%d:%d" % (rng.randrange(1000), rng.choice(sizes[:6]))))
            ins.append((p, ""))
        if dir_inputs and rng.random() < 0.35:
            p = b"src/indir%d" % s
            init += [("dir", p), ("file", p + b"/one.txt", "g:%d:9" % rng.randrange(1000)), ("file", p + b"/two.txt", "g:%d:70000" % rng.randrange(1000))]
            ins.append((p, "d"))
        if dir_inputs and rng.random() < 0.25:
            p = base + b"_skipdir"
            init += [("dir", p), ("file", p + b"/kept.txt", "g:%d:11" % rng.randrange(1000))]
            outs.append((p, "ds"))
        sp = (b"stage%d.yaml" % s) if rng.random() < 0.6 else (b"stages/s%d.yaml" % s)
        stages.append((sp, dict(cmd=b"", wd=b".", out=outs, **({"in": ins} if ins else {}))))
    case = dict(id=cid, init=init, stages=stages, ops=[])
    # sym: .dud/cache is a symbolic link to a directory elsewhere; symx: … on another device
    case["cache"] = rng.choice(["rel", "rel", "abs", "shm", "sym", "symx"])
    if rng.random() < 0.25:
        case["oddpath"] = True          # ':' and blanks in the absolute path of the project / the cache
    if rng.random() < 0.15:
        # dud is invoked from the project root reached through a symbolic link above it. (Not combined with a sub-directory
        # invocation: there dud mixes the logical $PWD with the physical getcwd() after its chdir to the root, and the links
        # it creates run through the physical path of the project — legitimate, but they dangle once the project is moved,
        # which the model's location-free links cannot express.)
        case["via_symlink"] = True
    elif rng.random() < 0.3:
        case["cwd"] = b"workdir/inner"
        case["init"].append(("dir", b"workdir"))
        case["init"].append(("dir", b"workdir/inner"))
    return case


def files_of(case):
    return [e for e in case["init"] if e[0] == "file"]


def artifact_files(case, art_path):
    return [e for e in case["init"] if e[0] == "file" and (e[1] == art_path or e[1].startswith(art_path + b"/"))]


def gen_history(rng, case, nops, allow=("commit", "checkout", "status", "push", "fetch", "edit", "add", "del", "rmart", "run"),
                wild=0.08):
    """Mostly-valid histories: tracks just enough abstract state (committed?, artifacts present?,
    pushed?) to keep commands from failing for boring reasons; with probability `wild` an arbitrary op."""
    arts = []
    for sp, st in case["stages"]:
        for p, fl in st.get("out", []):
            arts.append((p, fl))
    files = [e for e in case["init"] if e[0] == "file"]
    cur_spec = {e[1]: e[2] for e in files}          # path -> content spec as last written
    dirs = [p for p, fl in arts if "d" in fl]
    allow = tuple(allow) + (("append", "damage", "stale_link") if "edit" in allow and "checkout" in allow else ())
    committed = False
    pushed = False
    present = True          # every cached artifact is in the workspace
    ops = []
    info = dict(commits=0, edits_between=False, errors_possible=0)
    dirty = False
    extra = 0
    while len(ops) < nops:
        k = rng.choice(allow)
        w = rng.random() < wild
        if w:
            info["errors_possible"] += 1
        if k == "commit":
            if not present and not w:
                continue
            ops.append(("commit", rng.choice("lc"), []))
            if committed and dirty:
                info["edits_between"] = True
            committed = True
            dirty = False
            info["commits"] += 1
        elif k == "checkout":
            if not committed and not w:
                continue
            if present and not w and rng.random() < 0.7:
                continue
            ops.append(("checkout", rng.choice("lc") if not present else "l", False, []))
            present = True
        elif k == "status":
            ops.append(("status", []))
        elif k == "push":
            if not committed and not w:
                continue
            ops.append(("push", False, []))
            pushed = True
        elif k == "fetch":
            if not pushed and not w:
                continue
            ops.append(("fetch", False, []))
        elif k == "run":
            ops.append(("run", False, []))
        elif k == "edit" and files:
            if not present and not w:
                continue
            e = rng.choice(files)
            spec = "g:%d:%d" % (rng.randrange(1000), rng.choice(SIZES_Q))
            ops.append(("write", e[1], spec))
            cur_spec[e[1]] = spec
            dirty = True
        elif k == "append" and files:
            # a file is extended IN PLACE (same inode), as `>>` or an editor would: legitimate for a regular file, e.g. after a
            # copy commit / copy checkout (the harness replaces the entry instead when it is a link)
            if not present and not w:
                continue
            cand = [f for f in files if cur_spec.get(f[1], "").startswith("g:")]
            if not cand:
                continue
            e = rng.choice(cand)
            sd, n_ = cur_spec[e[1]].split(":")[1:]
            spec = "g:%s:%d" % (sd, int(n_) + rng.choice([1, 5, 4096]))
            if not (ops and ops[-1][0] in ("commit", "checkout") and ops[-1][1] == "c") and rng.random() < 0.6:
                ops.append(("commit", "c", []))          # make it a regular file that shares nothing with the cache, supposedly
                committed = True
                info["commits"] += 1
            ops.append(("append", e[1], spec))
            cur_spec[e[1]] = spec
            dirty = True
        elif k == "stale_link":
            # a tracked entry is a link to ANOTHER object of the cache (an older / other version); a copy checkout is asked for:
            # whatever it decides, the object the link points to keeps its bytes
            if not committed or not files:
                continue
            e = rng.choice(files)
            if not any(e[1] == p or e[1].startswith(p + b"/") for p, fl in arts if "s" not in fl):
                continue
            ops += [("relink", e[1], rng.randrange(50)), ("checkout", "c", False, []), ("status", [])]
            dirty = True
        elif k == "damage":
            # the object of a tracked file is damaged in the cache, then dud is asked for a verified copy of it: must fail and
            # leave the cache as it is
            if not committed or dirty or not files:
                continue
            e = rng.choice(files)
            if not any(e[1] == p or e[1].startswith(p + b"/") for p, fl in arts if "s" not in fl):
                continue
            ops += [("corrupt", "p" + e[1].hex(), "g:%d:%d" % (rng.randrange(1000), rng.choice([0, 3, 70000]))), ("rm", e[1]),
                    ("checkout", "c", False, []), ("status", [])]
            present = False
            break
        elif k == "add" and dirs:
            if not present and not w:
                continue
            d = rng.choice(dirs)
            extra += 1
            if rng.random() < 0.3:
                ops.append(("mkdir", d + b"/newdir%d" % extra))
            else:
                ops.append(("write", d + b"/new%d.dat" % extra, "g:%d:%d" % (rng.randrange(1000), rng.choice(SIZES_Q[:6]))))
            dirty = True
        elif k == "del" and files:
            if not present and not w:
                continue
            e = rng.choice(files)
            inside_dir = any(e[1].startswith(d + b"/") for d in dirs)
            if inside_dir or w:
                ops.append(("rm", e[1]))
                files = [f for f in files if f is not e]
                dirty = True
        elif k == "rmart" and arts:
            if not committed and not w:
                continue
            if dirty and not w:
                continue          # would lose uncommitted edits; uninteresting
            for p, fl in arts:
                if "s" not in fl:
                    ops.append(("rm", p))
            present = False
    case["ops"] = ops[:nops + 3]
    case["hist_info"] = info
    return case


def pipeline_project(rng, cid, n, cyclic=False, tier="quick", all_edges=None, sink=False, lossy=0.0, dir_sources=0.0):
    """n stages with vcmd commands; edges j->i (i consumes an output of j). Returns the case and the
    edge list. Outputs: file out/o<i>.txt or directory out/d<i> (vcmd writes f and sub/g into it)."""
    init = []
    stages = []
    kinds = [rng.choice(["file", "file", "dir"]) for _ in range(n)]
    if all_edges is None:
        edges = [(j, i) for i in range(n) for j in range(i) if rng.random() < 0.45]
    else:
        edges = list(all_edges)
    if cyclic and n >= 2:
        a, b = rng.sample(range(n), 2)
        lo, hi = min(a, b), max(a, b)
        if (lo, hi) not in edges:
            edges.append((lo, hi))
        edges.append((hi, lo))            # closes a cycle
    names = [b"st%d.yaml" % i for i in range(n)]
    outpath = [(b"out/o%d.txt" % i) if kinds[i] == "file" else (b"out/d%d" % i) for i in range(n)]
    nested_used = False
    split_dirs = {j: (rng.random() < 0.25) for j in range(n) if kinds[j] == "dir"}
    for i in range(n):
        ins = []
        args_in = []
        for (j, k) in edges:
            if k != i:
                continue
            if kinds[j] == "dir" and split_dirs.get(j):
                # the producer declares TWO outputs: the directory itself without recursion and the directory two levels below it;
                # the consumer reads inside the nested one, and often ALSO a file of the outer one (two inputs owned by one stage)
                ins.append((outpath[j] + b"/sub/deep/h", ""))
                args_in.append(outpath[j] + b"/sub/deep/h")
                if rng.random() < 0.6:
                    ins.append((outpath[j] + b"/f", ""))
                    args_in.append(outpath[j] + b"/f")
                nested_used = True
            elif kinds[j] == "dir":
                how = rng.choice(["dir", "nested", "nested2"])
                if how == "dir":
                    ins.append((outpath[j], "d"))
                    args_in.append(outpath[j])
                elif how == "nested":
                    ins.append((outpath[j] + b"/f", ""))
                    args_in.append(outpath[j] + b"/f")
                    nested_used = True
                else:
                    ins.append((outpath[j] + b"/sub/g", ""))
                    args_in.append(outpath[j] + b"/sub/g")
                    nested_used = True
            else:
                ins.append((outpath[j], ""))
                args_in.append(outpath[j])
        has_src = rng.random() < 0.6 or not ins
        shared_src = [e for e in init if e[0] == "file" and e[1].startswith(b"src/") and not e[1].startswith(b"src/dir")]
        if has_src and shared_src and rng.random() < 0.3:
            # several stages read the same plain file
            sp = rng.choice(shared_src)[1]
            ins.append((sp, ""))
            args_in.append(sp)
        elif has_src and rng.random() < 0.85:
            sp = b"src/s%d.txt" % i
            dirs_ = [j for j in range(n) if kinds[j] == "dir"]
            if dirs_ and rng.random() < 0.4:
                # a plain source in a directory whose NAME merely starts with the name of some stage's directory output
                sp = outpath[rng.choice(dirs_)] + b"_cfg/p%d.txt" % i
            init.append(("file", sp, "g:%d:%d" % (rng.randrange(1000), rng.choice([0, 3, 40, 70000] if tier == "thorough" else [0, 3, 40]))))
            ins.append((sp, ""))
            args_in.append(sp)
        if dir_sources and rng.random() < dir_sources:
            # a plain DIRECTORY input (owned by no stage)
            dp = b"src/dir%d" % i
            init += [("dir", dp), ("file", dp + b"/one.txt", "g:%d:9" % rng.randrange(1000)), ("file", dp + b"/two.txt", "g:%d:40" % rng.randrange(1000))]
            ins.append((dp, "d"))
            args_in.append(dp)
        # de-duplicate inputs by path
        seen = set()
        ins = [x for x in ins if not (x[0] in seen or seen.add(x[0]))]
        seen = set()
        args_in = [x for x in args_in if not (x in seen or seen.add(x))]
        out_arg = outpath[i] + (b"/" if kinds[i] == "dir" else b"")
        # `vlen`: the outputs depend on the lengths of the inputs only (a changed input can reproduce identical outputs)
        prog = b"vlen" if (lossy and rng.random() < lossy) else b"vcmd"
        cmd = prog + b" S%d " % i + out_arg + b" -- " + b" ".join(args_in)
        st = dict(cmd=cmd.strip(), wd=b".", out=[(outpath[i], "d" if kinds[i] == "dir" else "")])
        if split_dirs.get(i):
            st["out"] = [(outpath[i], "dr"), (outpath[i] + b"/sub/deep", "d")]
        if ins:
            st["in"] = ins
        stages.append((names[i], st))
    if sink and n >= 1:
        # a leaf stage that has nothing to cache itself: a command with inputs and no outputs, or only a skip-cache output
        src = rng.sample(range(n), min(n, rng.choice([1, 2])))
        ins = [(outpath[j], "d" if kinds[j] == "dir" else "") for j in src]
        args = b" ".join(outpath[j] for j in src)
        if rng.random() < 0.5:
            st = dict(cmd=b"vprobe S%d -- " % n + args, wd=b".", out=[], **{"in": ins})
        else:
            st = dict(cmd=b"vcmd S%d out/report%d.txt -- " % (n, n) + args, wd=b".", out=[(b"out/report%d.txt" % n, "s")], **{"in": ins})
        stages.append((b"st%d.yaml" % n, st))
        edges = edges + [(j, n) for j in src]
        kinds = kinds + ["sink"]
    case = dict(id=cid, init=init, stages=stages, ops=[], cache=rng.choice(["rel", "rel", "abs", "sym"]))
    if rng.random() < 0.12:
        case["via_symlink"] = True
    case["edges"] = edges
    case["kinds"] = kinds
    case["nested"] = nested_used
    case["cyclic"] = cyclic
    return case
