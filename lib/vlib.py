"""Shared machinery of the dud verification checks: builds, Lean audit, evidence, findings."""
import hashlib, json, os, re, shutil, subprocess, sys, tempfile, time, atexit, random

VERIF = os.path.dirname(os.path.dirname(os.path.abspath(__file__)))
REPO = os.environ.get("VERIF_REPO", "/repo")
BUILD = os.path.join(VERIF, "build")
LEAN = os.path.join(VERIF, "lean")
GOENV = dict(GOFLAGS="-mod=mod", GOPROXY="off", GOSUMDB="off", GOTOOLCHAIN="local", CGO_ENABLED="0")
ALLOWED_AXIOMS = {"propext", "Classical.choice", "Quot.sound"}
FORBIDDEN = re.compile(r"\b(sorry|admit|native_decide|bv_decide|implemented_by|unsafe)\b|^\s*axiom\s|maxHeartbeats\s+0\b", re.M)

_scratch = None


def scratch():
    global _scratch
    if _scratch is None:
        _scratch = tempfile.mkdtemp(prefix="verif.")
        atexit.register(lambda: shutil.rmtree(_scratch, ignore_errors=True))
    return _scratch


def shm_scratch():
    d = tempfile.mkdtemp(prefix="verif.", dir="/dev/shm")
    atexit.register(lambda: shutil.rmtree(d, ignore_errors=True))
    return d


def run(cmd, cwd=None, env=None, timeout=600, inp=None):
    e = dict(os.environ)
    if env:
        e.update(env)
    p = subprocess.run(cmd, cwd=cwd, env=e, input=inp, stdout=subprocess.PIPE, stderr=subprocess.PIPE, timeout=timeout)
    return p.returncode, p.stdout, p.stderr


class BuildBroken(Exception):
    def __init__(self, what, detail):
        super().__init__(what)
        self.what, self.detail = what, detail


def seed():
    try:
        return int(os.environ.get("VERIF_SEED", "1"))
    except ValueError:
        return 1


def tier(argv_tier=None):
    return argv_tier or os.environ.get("VERIF_TIER", "quick")


# ----------------------------------------------------------------------------- builds

def build_dud(race=False):
    """go build -tags verif of /repo's working tree -> scratch binary."""
    out = os.path.join(scratch(), "dud-race" if race else "dud")
    cmd = ["go", "build", "-tags", "verif"] + (["-race"] if race else []) + ["-o", out, "."]
    env = dict(GOENV)
    if race:
        env["CGO_ENABLED"] = "1"
    rc, so, se = run(cmd, cwd=REPO, env=env, timeout=900)
    if rc != 0:
        raise BuildBroken("go build /repo", se.decode(errors="replace"))
    return out


def build_factgen():
    out = os.path.join(BUILD, "factgen")
    os.makedirs(BUILD, exist_ok=True)
    rc, so, se = run(["go", "build", "-o", out, "."], cwd=os.path.join(VERIF, "tools", "factgen"), env=GOENV)
    if rc != 0:
        raise BuildBroken("go build factgen", se.decode(errors="replace"))
    return out


def regen_facts():
    fg = build_factgen()
    rc, so, se = run([fg, REPO])
    if rc != 0:
        raise BuildBroken("factgen", se.decode(errors="replace"))
    dst = os.path.join(LEAN, "DudModel", "Generated", "Facts.lean")
    os.makedirs(os.path.dirname(dst), exist_ok=True)
    old = open(dst, "rb").read() if os.path.exists(dst) else None
    if old != so:
        with open(dst, "wb") as f:
            f.write(so)
    return so.decode()


def lake_build(targets):
    rc, so, se = run(["lake", "build"] + targets, cwd=LEAN, timeout=3000)
    return rc, (so + se).decode(errors="replace")


def build_driver():
    regen_facts()
    rc, log = lake_build(["dudmodel"])
    if rc != 0:
        raise BuildBroken("lake build dudmodel", log)
    return os.path.join(LEAN, ".lake", "build", "bin", "dudmodel")


def build_harness(name, race=False):
    """Go in-process harness under /verif/harness/<name> (module replaces dud by the repository under test)."""
    src = os.path.join(scratch(), "harness-src")
    if not os.path.exists(src):
        shutil.copytree(os.path.join(VERIF, "harness"), src)
        gm = open(os.path.join(src, "go.mod")).read().replace("=> /repo", "=> " + REPO)
        open(os.path.join(src, "go.mod"), "w").write(gm)
    shutil.copyfile(os.path.join(REPO, "go.sum"), os.path.join(src, "go.sum"))
    out = os.path.join(scratch(), name + ("-race" if race else ""))
    env = dict(GOENV)
    cmd = ["go", "build", "-tags", "verif"] + (["-race"] if race else []) + ["-o", out, "./" + name]
    if race:
        env["CGO_ENABLED"] = "1"
    rc, so, se = run(cmd, cwd=src, env=env, timeout=900)
    if rc != 0:
        raise BuildBroken("go build harness/" + name, se.decode(errors="replace"))
    return out


def build_sysstep():
    out = os.path.join(BUILD, "sysstep")
    src = os.path.join(VERIF, "tools", "sysstep.c")
    if not os.path.exists(out) or os.path.getmtime(out) < os.path.getmtime(src):
        os.makedirs(BUILD, exist_ok=True)
        rc, so, se = run(["cc", "-O1", "-o", out, src])
        if rc != 0:
            raise BuildBroken("cc sysstep", se.decode(errors="replace"))
    return out


# ----------------------------------------------------------------------------- Lean audit

def theorems_of(lean_file):
    """(namespace-qualified) theorem names declared in a Props file."""
    txt = strip_comments(open(lean_file).read())     # the words `namespace X` / `theorem X` also occur in doc comments
    ns = []
    names = []
    for line in txt.splitlines():
        m = re.match(r"\s*namespace\s+(\S+)", line)
        if m:
            ns.append(m.group(1))
            continue
        m = re.match(r"\s*end\s+(\S+)", line)
        if m and ns and ns[-1] == m.group(1):
            ns.pop()
            continue
        if re.match(r"\s*private\s", line):
            continue            # private lemmas are audited through the public theorems that use them
        m = re.match(r"\s*(?:protected\s+)?theorem\s+([^\s:({\[]+)", line)
        if m:
            names.append(".".join(ns + [m.group(1)]))
    return names


def strip_comments(txt):
    txt = re.sub(r"/-.*?-/", "", txt, flags=re.S)
    return re.sub(r"--.*", "", txt)


def lean_audit(prop_id, extra_modules=()):
    """Build every DudModel/Props/<id>*.lean and audit the axioms of every theorem in them."""
    import glob
    files = sorted(glob.glob(os.path.join(LEAN, "DudModel", "Props", prop_id + "*.lean")))
    res = dict(obligations=0, discharged=0, failures=[], axioms={}, log="", theorems=[])
    if not files:
        res["failures"].append("missing DudModel/Props/%s*.lean" % prop_id)
        return res
    for f in files:
        one = lean_audit_file(f)
        res["obligations"] += one["obligations"]
        res["discharged"] += one["discharged"]
        res["failures"] += one["failures"]
        res["axioms"].update(one["axioms"])
        res["theorems"] += one["theorems"]
        res["log"] += one["log"][-2000:]
    return res


def lean_audit_file(path):
    name = os.path.basename(path)[:-5]
    mod = "DudModel.Props." + name
    res = dict(obligations=0, discharged=0, failures=[], axioms={}, log="", theorems=[])
    regen_facts()
    thms = theorems_of(path)
    res["theorems"] = thms
    res["obligations"] = len(thms)
    # forbidden constructs in every module the property file pulls in from this project
    seen = set()
    todo = [path]
    while todo:
        p = todo.pop()
        if p in seen or not os.path.exists(p):
            continue
        seen.add(p)
        for m in re.findall(r"^import\s+(DudModel\.\S+)", open(p).read(), re.M):
            todo.append(os.path.join(LEAN, *m.split(".")) + ".lean")
    for p in sorted(seen):
        bad = FORBIDDEN.search(strip_comments(open(p).read()))
        if bad:
            res["failures"].append("forbidden construct %r in %s" % (bad.group(0).strip(), os.path.relpath(p, LEAN)))
    rc, log = lake_build([mod])
    res["log"] = log[-6000:]
    if rc != 0:
        failed = set()
        for m in re.finditer(r"error: ([^\n:]+\.lean):(\d+):(\d+)", log):
            f, ln = m.group(1), int(m.group(2))
            fp = f if os.path.isabs(f) else os.path.join(LEAN, f)
            failed.add("%s:%d %s" % (os.path.relpath(fp, LEAN), ln, enclosing_decl(fp, ln)))
        res["failures"].append("lake build %s failed: %s" % (mod, "; ".join(sorted(failed)) or "see log"))
        return res
    audit = os.path.join(scratch(), "Audit_%s.lean" % name)
    with open(audit, "w") as f:
        f.write("import %s\n" % mod)
        for t in thms:
            f.write("#print axioms %s\n" % t)
    rc, so, se = run(["lake", "env", "lean", audit], cwd=LEAN, timeout=900)
    out = (so + se).decode(errors="replace")
    if rc != 0:
        res["failures"].append("axiom audit of %s failed: %s" % (mod, out[-2000:]))
        return res
    for m in re.finditer(r"'(\S+)' (does not depend on any axioms|depends on axioms: \[([^\]]*)\])", out):
        nm = m.group(1)
        axs = set(a.strip() for a in (m.group(3) or "").replace("\n", " ").split(",") if a.strip())
        res["axioms"][nm] = sorted(axs)
        if axs <= ALLOWED_AXIOMS:
            res["discharged"] += 1
        else:
            res["failures"].append("theorem %s depends on %s" % (nm, sorted(axs - ALLOWED_AXIOMS)))
    missing = [t for t in thms if t not in res["axioms"]]
    if missing:
        res["failures"].append("no axiom report for " + ", ".join(missing))
    return res


def enclosing_decl(path, line):
    try:
        lines = open(path).read().splitlines()
    except OSError:
        return "?"
    for i in range(min(line, len(lines)) - 1, -1, -1):
        m = re.match(r"\s*(?:private\s+)?(theorem|def|lemma|example|instance|structure|inductive)\s*([^\s:({\[]*)", lines[i])
        if m:
            return "%s %s" % (m.group(1), m.group(2))
    return "?"


def leanchecker(mods):
    """independent re-check of the compiled modules; `DudModel.Props.Cxx` stands for every Props/Cxx*.lean module"""
    import glob
    full = []
    for m in mods:
        mm = re.fullmatch(r"DudModel\.Props\.(C\d\d)", m)
        if mm:
            full += sorted("DudModel.Props." + os.path.basename(f)[:-5] for f in glob.glob(os.path.join(LEAN, "DudModel", "Props", mm.group(1) + "*.lean")))
        else:
            full.append(m)
    mods = full or mods
    rc, so, se = run(["lake", "env", "leanchecker"] + mods, cwd=LEAN, timeout=3000)
    return rc == 0, (so + se).decode(errors="replace")[-2000:]


# ----------------------------------------------------------------------------- findings / evidence

def load_findings():
    p = os.path.join(VERIF, "known_findings.json")
    if not os.path.exists(p):
        return []
    return json.load(open(p)).get("findings", [])


class Result:
    """Collects what one check run did and turns it into evidence + exit status."""

    def __init__(self, prop, tier_, level="proof"):
        self.prop, self.tier, self.level = prop, tier_, level
        self.t0 = time.time()
        self.cov = dict(evaluations=0, distinct_nontrivial=0, samples=[], rule="", obligations=0, discharged=0,
                        checker_cmd="", trusted_base=[], traces_validated_against_impl=0)
        self.violations = []       # (replay dict, nofail)
        self.known = {}            # finding id -> text
        self.assumptions = []
        self.distinct = set()
        self.notes = {}

    def count(self, case_key=None, nontrivial=False):
        self.cov["evaluations"] += 1
        if nontrivial and case_key is not None:
            self.distinct.add(case_key)

    def sample(self, s, limit=6):
        if len(self.cov["samples"]) < limit:
            self.cov["samples"].append(s)

    def known_finding(self, fid, text):
        self.known.setdefault(fid, text)

    def violation(self, replay, nofail=False):
        self.violations.append((replay, nofail))

    def absorb_audit(self, a):
        self.cov["obligations"] += a["obligations"]
        self.cov["discharged"] += a["discharged"]
        self.cov["theorems"] = a["theorems"]
        self.cov["axioms"] = a["axioms"]
        for f in a["failures"]:
            self.violation(dict(kind="proof-obligation", detail=f, log=a["log"][-3000:]), nofail=True)

    def finish(self):
        self.cov["distinct_nontrivial"] = len(self.distinct)
        wall = time.time() - self.t0
        os.makedirs(os.path.join(VERIF, "evidence"), exist_ok=True)
        os.makedirs(os.path.join(VERIF, "replays"), exist_ok=True)
        # a concrete failing input outranks "no failing input found"
        concrete = [v for v in self.violations if not v[1]]
        nofail = [v for v in self.violations if v[1]]
        lines = []
        for fid, text in sorted(self.known.items()):
            lines.append("KNOWN-FINDING: property=%s %s" % (self.prop, text))
        rc = 0
        if concrete or nofail:
            rc = 1
            rp = os.path.join(VERIF, "replays", "%s-%s-%d.json" % (self.prop, self.tier, seed()))
            with open(rp, "w") as f:
                json.dump(dict(property=self.prop, seed=seed(), tier=self.tier,
                               violations=[v[0] for v in concrete], unproved=[v[0] for v in nofail]), f, indent=1, default=str)
            lines.append("VIOLATION property=%s replay=%s%s" % (self.prop, rp, "" if concrete else " no-failing-input-found"))
        ev = dict(property_id=self.prop, tier=self.tier, seed=seed(), level=self.level, coverage=self.cov,
                  assumptions=self.assumptions, wall_s=round(wall, 2), violations=len(self.violations),
                  known_findings=sorted(self.known), notes=self.notes)
        with open(os.path.join(VERIF, "evidence", self.prop + ".json"), "w") as f:
            json.dump(ev, f, indent=1, default=str)
        for l in lines:
            print(l)
        print("%s %s tier=%s seed=%d evaluations=%d nontrivial=%d obligations=%d/%d wall=%.1fs" % (
            self.prop, "FAIL" if rc else "ok", self.tier, seed(), self.cov["evaluations"], len(self.distinct),
            self.cov["discharged"], self.cov["obligations"], wall))
        sys.stdout.flush()
        return rc


TRUSTED_COMMON = [
    "Lean 4.33.0 kernel; axioms limited to propext, Classical.choice, Quot.sound (audited by #print axioms on every run)",
    "hand-written Lean model of the Go code; tied by tools/factgen (regenerated facts) and the differential streams of this check",
    "Go toolchain go1.23.5, kernel file-system semantics, third-party libraries (yaml.v2, viper, cobra, zeebo/blake3) are not verified",
]
