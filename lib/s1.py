"""Stream S1/S3: CLI histories on a real scratch project vs the Lean model (dudmodel sim)."""
import hashlib, json, os, re, shutil, stat, subprocess, sys, tempfile, time
from multiprocessing import Pool
import yaml
from vlib import VERIF, run, scratch, BuildBroken


def hx(b):
    if isinstance(b, str):
        b = b.encode()
    return b.hex() if b else "-"


def unhx(s):
    return b"" if s == "-" else bytes.fromhex(s)


def gen_content(seed, n):
    # must match Driver/Main.lean genContent
    blocks = n // 257 + 1
    out = bytearray()
    for k in range(blocks):
        out += bytes(((seed + j * j * 7 + j + k * 3) & 0xFF) for j in range(257))
    return bytes(out[:n])


def content_bytes(spec):
    kind, rest = spec.split(":", 1)
    if kind == "g":
        s, n = rest.split(":")
        return gen_content(int(s), int(n))
    if kind == "z":
        # the first (seed % 4)/4 of the file as in "g", the rest zeros (zero-padded / preallocated data; seed % 4 == 0: all zeros)
        s, n = rest.split(":")
        s, n = int(s), int(n)
        k = (s % 4) * n // 4
        return gen_content(s, k) + bytes(n - k)
    if kind == "t":
        # as "g", with the last k bytes inverted (a change near the END of a long file)
        s, n, k = rest.split(":")
        b = bytearray(gen_content(int(s), int(n)))
        for j in range(max(0, len(b) - int(k)), len(b)):
            b[j] ^= 0xFF
        return bytes(b)
    if kind in ("sp", "sd"):
        # n bytes as in "g", then zeros up to `total`; "sp": the zeros are a HOLE (the file is extended with ftruncate, nothing is
        # written there), "sd": the same bytes written out
        s, n, total = rest.split(":")
        return gen_content(int(s), int(n)) + bytes(int(total) - int(n))
    return bytes.fromhex(rest) if rest else b""


# ----------------------------------------------------------------------------- Go-compatible JSON strings

def gojson_str(b):
    """encoding/json string encoding (escapeHTML on) of a Go string given as bytes."""
    out = ['"']
    i = 0
    n = len(b)
    while i < n:
        c = b[i]
        if c < 0x80:
            ch = chr(c)
            if ch == '"':
                out.append('\\"')
            elif ch == '\\':
                out.append('\\\\')
            elif c == 8:
                out.append('\\b')
            elif c == 12:
                out.append('\\f')
            elif c == 10:
                out.append('\\n')
            elif c == 13:
                out.append('\\r')
            elif c == 9:
                out.append('\\t')
            elif c < 0x20 or ch in '<>&':
                out.append('\\u%04x' % c)
            else:
                out.append(ch)
            i += 1
            continue
        # decode one rune
        ln = 0
        for l in (2, 3, 4):
            try:
                s = b[i:i + l].decode('utf-8')
                if len(s) == 1:
                    ln = l
                    break
            except UnicodeDecodeError:
                pass
        if ln == 0:
            out.append('\\ufffd')
            i += 1
            continue
        s = b[i:i + ln].decode('utf-8')
        if s == '\u2028':
            out.append('\\u2028')
        elif s == '\u2029':
            out.append('\\u2029')
        else:
            out.append(s)
        i += ln
    out.append('"')
    return ''.join(out).encode('utf-8')


# ----------------------------------------------------------------------------- model side

def case_text(case):
    L = ["case %s" % case["id"]]
    for k, p, *rest in case["init"]:
        if k == "file":
            L.append("file %s %s" % (hx(p), rest[0]))
        elif k == "dir":
            L.append("dir %s" % hx(p))
        elif k == "fifo":
            L.append("fifo %s" % hx(p))
        elif k == "flink":
            L.append("flink %s %d" % (hx(p), rest[0]))
    for sp, st in case["stages"]:
        toks = ["stage", hx(sp), "cmd=" + hx(st.get("cmd", b"")), "wd=" + hx(st.get("wd", b"."))]
        for p, fl in st.get("in", []):
            toks.append("in:%s:%s" % (hx(p), fl or "-"))
        for p, fl in st.get("out", []):
            toks.append("out:%s:%s" % (hx(p), fl or "-"))
        L.append(" ".join(toks))
    for op in case["ops"]:
        L.append("op " + op_text(op))
    L.append("end")
    return "\n".join(L) + "\n"


def op_text(op):
    k = op[0]
    if k in ("commit",):
        return " ".join(["commit", op[1]] + [hx(t) for t in op[2]])
    if k == "checkout":
        return " ".join(["checkout", op[1], str(int(op[2]))] + [hx(t) for t in op[3]])
    if k == "status":
        return " ".join(["status"] + [hx(t) for t in op[1]])
    if k in ("run", "push", "fetch"):
        return " ".join([k, str(int(op[1]))] + [hx(t) for t in op[2]])
    if k == "graph":
        return " ".join(["graph"] + [hx(t) for t in op[1]])
    if k in ("stageadd", "stagerm"):
        return " ".join([k] + [hx(t) for t in op[1]])
    if k == "setcmd":
        return "setcmd %s %s" % (hx(op[1]), hx(op[2]))
    if k == "setskip":
        return "setskip %s %s" % (hx(op[1]), hx(op[2]))
    if k == "staletmp":
        return "staletmp %s" % hx(op[1])
    if k == "dudtmp":
        return "staletmp %s" % hx(op[1])          # for the model: nothing of the modelled project changes
    if k in ("write", "writeold"):
        return "write %s %s" % (hx(op[1]), op[2])       # writeold: same for the model (timestamps are not content)
    if k in ("rm", "mkdir", "fifo", "uncopy"):
        return "%s %s" % (k, hx(op[1]))
    if k == "flink":
        return "flink %s %d" % (hx(op[1]), op[2])
    if k == "lookalike":
        return "flink %s 1" % hx(op[1])           # for the model: a link to a live file that is not a cache object
    if k == "wlink":
        return "flink %s 1" % hx(op[1])           # a link to another (existing) workspace file: for the model a live foreign link
    if k == "lexlink":
        return "flink %s 0" % hx(op[1])           # a link whose TEXT cleans to the cache object but which resolves elsewhere (dangling)
    if k == "pull":
        return " ".join(["pull", op[1], str(int(op[2]))] + [hx(t) for t in op[3]])       # strategy, single-stage, targets
    if k == "rmindex":
        return "rmindex"
    if k in ("fdirlink", "dirlink"):
        return "flink %s 1" % hx(op[1])           # a link to an existing directory outside the project: for the model a live foreign link
    if k == "writeolddir":
        return "write %s %s" % (hx(op[1]), op[2])  # new file, the containing directory keeps an OLD modification time (rsync -a, tar x)
    if k == "append":
        return "write %s %s" % (hx(op[1]), op[2])  # in-place append to a regular file: for the model a write of the longer content
    if k == "movecache":
        return "movecache"
    if k == "rmcachedir":
        return "rmcachedir"
    if k == "relink":
        return "relink %s %d" % (hx(op[1]), op[2])
    if k == "corrupt":
        return "corrupt %s %s" % (op[1], op[2])        # <k>: k-th file object, m<k>: k-th manifest, p<hexpath>: the object of that file
    if k == "mv":
        return "mv %s %s" % (hx(op[1]), hx(op[2]))
    if k == "rmobj":
        return "rmobj %s" % op[1]        # <k>: k-th object; m<k>: k-th manifest
    if k == "clone":
        return " ".join(["clone"] + [hx(d) for d in (op[1] if len(op) > 1 else [])])
    if k == "moveproj":
        return "moveproj %s" % op[1]
    if k == "oldschema":
        return k if len(op) == 1 else "oldschema " + op[1]
    if k == "wipecache":
        return k
    raise ValueError(op)


def model_traces(driver, cases):
    """Run all cases through one `dudmodel sim`; returns {case id: [step dict]}."""
    # the cases are independent: split them over several model processes
    from concurrent.futures import ThreadPoolExecutor
    nproc = max(1, min(12, (os.cpu_count() or 2) - 2, (len(cases) + 19) // 20))
    chunks = [cases[i::nproc] for i in range(nproc)]

    def one(chunk):
        inp = "".join(case_text(c) for c in chunk).encode()
        return run([driver, "sim"], inp=inp, timeout=3600)
    with ThreadPoolExecutor(max_workers=nproc) as ex:
        results = list(ex.map(one, chunks))
    so_all = []
    for rc, so, se in results:
        if rc != 0:
            raise BuildBroken("dudmodel sim", se.decode(errors="replace")[-2000:])
        so_all.append(so.decode())
    out = {}
    cur = None
    step = None
    for line in "".join(so_all).splitlines():
        if line.startswith("case "):
            cur = []
            out[line.split()[1]] = cur
        elif line.startswith("step "):
            _, i, st = line.split(" ", 2)
            step = dict(i=int(i), status=st, lines=[], x=[], log=None)
            cur.append(step)
            if st == "dead":
                step = None
        elif line == "endstep":
            step = None
        elif line == "end":
            cur = None
        elif line.startswith("bad-line"):
            raise BuildBroken("dudmodel sim", line)
        elif step is not None:
            if line.startswith("x "):
                step["x"].append(line.split()[1:])
            elif line.startswith("log"):
                step["log"] = [unhx(t) for t in line.split()[1:]]
            else:
                step["lines"].append(line)
    return out


# ----------------------------------------------------------------------------- implementation side

class B3:
    """BLAKE3 by the Lean implementation (independent of zeebo/blake3)."""

    def __init__(self, driver):
        self.p = subprocess.Popen([driver, "b3"], stdin=subprocess.PIPE, stdout=subprocess.PIPE)
        self.memo = {}
        self.alias = None

    def file(self, path):
        with open(path, "rb") as f:
            data = f.read()
        k = hashlib.sha256(data).digest()
        if k not in self.memo:
            self.p.stdin.write(self._safe(path).hex().encode() + b"\n")
            self.p.stdin.flush()
            self.memo[k] = self.p.stdout.readline().decode().strip()
        return self.memo[k]

    def _safe(self, path):
        """the driver reads the path as UTF-8: hand it a plain-ASCII alias when the name is not"""
        pb = os.fsencode(path)
        try:
            pb.decode("utf-8")
            if b"\n" not in pb:
                return pb
        except UnicodeDecodeError:
            pass
        if self.alias is None:
            self.alias = tempfile.mkdtemp(prefix="b3alias.")
        link = os.path.join(os.fsencode(self.alias), b"f")
        if os.path.lexists(link):
            os.unlink(link)
        os.symlink(os.path.abspath(pb), link)
        return link

    def data(self, data, tmpdir):
        k = hashlib.sha256(data).digest()
        if k not in self.memo:
            p = os.path.join(tmpdir, ".b3tmp")
            with open(p, "wb") as f:
                f.write(data)
            self.memo[k] = self.file(p)
            os.unlink(p)
        return self.memo[k]

    def close(self):
        try:
            self.p.stdin.close()
            self.p.wait(timeout=5)
        except Exception:
            self.p.kill()
        if self.alias:
            shutil.rmtree(self.alias, ignore_errors=True)


ERR_PATTERNS = [
    (r"cycle detected", "cycle"),
    (r"already owned by|would own artifact", "owned"),
    (r"project lock file .* exists", "locked"),
    (r"checksum missing from cache", "missing-from-cache"),
    (r"no checksum|invalid checksum", "invalid-checksum"),
    (r"found checksum .* expected", "checksum-mismatch"),
    (r"expected regular file, got", "not-regular"),
    (r"expected target to be empty or a directory", "exists"),
    (r"file exists", "exists"),
    (r"not a directory", "not-dir"),
    (r"no such file or directory|file does not exist", "missing"),
    (r"unknown stage", "unknown-stage"),
    (r"index is empty", "invalid"),
    (r"conflicts with artifact|outside of the project root|absolute path|declared no|references itself|both an input and an output", "invalid"),
]


def err_class(stderr):
    s = stderr.decode(errors="replace")
    for pat, cls in ERR_PATTERNS:
        if re.search(pat, s):
            return cls
    return "other"


ROOT_WARNING = re.compile(rb"WARNING: Running as root.*?\n\n", re.S)


class Project:
    """A real dud project in scratch space."""

    def __init__(self, dud, base, cache_mode="rel", cwd_sub=b"", remote=True, env_extra=None, odd=False, via_symlink=False):
        self.dud_bin = dud
        self.timeout = 120
        self.base = base                                   # private scratch dir of this case
        # `odd`: the absolute paths of project and cache contain ':' and blanks (a run directory named after a timestamp)
        outer = "run 2024-05-17T12:30" if odd else "outer"
        self.root = os.path.join(base, outer, "proj")    # surrounded by a sentinel tree
        os.makedirs(self.root)
        if via_symlink:
            # the project is reached through a symbolic link above its root (as a shell that `cd`s through a link leaves $PWD)
            os.symlink(outer, os.path.join(base, "lnk"))
            self.root = os.path.join(base, "lnk", "proj")
        self.xdg = os.path.join(base, "xdg")
        os.makedirs(self.xdg)
        self.home = os.path.join(base, "home")
        os.makedirs(self.home)
        self.foreign = os.path.join(base, "foreign_target")
        with open(self.foreign, "wb") as f:
            f.write(b"foreign bytes")
        self.remote_dir = os.path.join(base, "remote")
        os.makedirs(self.remote_dir)
        self.log = os.path.join(base, "cmdlog")
        self.env = dict(os.environ, XDG_CONFIG_HOME=self.xdg, HOME=self.home, LC_ALL="C",
                        PATH=os.path.join(VERIF, "tools") + ":" + os.environ.get("PATH", ""),
                        VERIF_CMDLOG=self.log, DUD_VERIF_BASE=base)
        if env_extra:
            self.env.update(env_extra)
        self.cache_mode = cache_mode
        if cache_mode in ("rel", "sym", "symx"):
            self.cache = os.path.join(self.root, ".dud", "cache")
            cache_cfg = None
        elif cache_mode == "abs":
            self.cache = os.path.join(base, "abs:cache dir" if odd else "abscache")
            os.makedirs(self.cache)
            cache_cfg = self.cache
        else:  # shm: different device
            self.shm = tempfile.mkdtemp(prefix="verif.", dir="/dev/shm")
            self.cache = os.path.join(self.shm, "cache")
            os.makedirs(self.cache)
            cache_cfg = self.cache
        rc, so, se = self.dud(["init"], cwd=self.root)
        if rc != 0:
            raise RuntimeError("dud init failed: %r" % se)
        if cache_mode in ("sym", "symx"):
            # the default cache location is a symbolic link to a directory elsewhere (a cache kept on a bigger disk);
            # symx: that directory is on another device, so the cache directory itself is a file-system boundary
            if cache_mode == "symx":
                self.shm = tempfile.mkdtemp(prefix="verif.", dir="/dev/shm")
                target = os.path.join(self.shm, "cache")
            else:
                target = os.path.join(base, "cache-on-big-disk")
            os.makedirs(target)
            if os.path.isdir(self.cache) and not os.path.islink(self.cache):
                os.rmdir(self.cache)
            os.symlink(target, self.cache)
        with open(os.path.join(self.root, ".dud", "config.yaml"), "a") as f:
            if cache_cfg:
                f.write("cache: %s\n" % json.dumps(cache_cfg))
            if remote:
                f.write("remote: %s\n" % self.remote_dir)
        self.cwd = os.path.join(os.fsencode(self.root), cwd_sub) if cwd_sub else os.fsencode(self.root)
        os.makedirs(self.cwd, exist_ok=True)
        self.cwd_sub = cwd_sub
        self.stage_paths = []
        self.timeout = 120
        self.cmds = {}
        self.harness_corrupted = set()
        self.harness_removed = set()
        self.mounts = {}         # absolute workspace path (bytes) of a symlink standing for a mount point -> directory on another device

    def add_mount(self, rel):
        """a directory of the workspace that lives on another file system (a symlink to a directory on /dev/shm)"""
        target = tempfile.mkdtemp(prefix="verif.mnt.", dir="/dev/shm")
        full = self.abspath(rel)
        os.makedirs(os.path.dirname(full), exist_ok=True)
        os.symlink(os.fsencode(target), full)
        self.mounts[full] = target
        return target

    def move(self):
        """rename the project directory to a place at another depth"""
        self.moves = getattr(self, "moves", 0) + 1
        new_outer = os.path.join(self.base, "moved%d" % self.moves, "a", "b")
        os.makedirs(new_outer)
        new_root = os.path.join(new_outer, "proj")
        os.rename(self.root, new_root)
        if self.cache_mode in ("rel", "sym", "symx"):
            self.cache = os.path.join(new_root, ".dud", "cache")
        self.root = new_root
        self.cwd = os.path.join(os.fsencode(self.root), self.cwd_sub) if self.cwd_sub else os.fsencode(self.root)

    def cleanup(self):
        shutil.rmtree(self.base, ignore_errors=True)
        if self.cache_mode in ("shm", "symx"):
            shutil.rmtree(self.shm, ignore_errors=True)

    def dud(self, args, cwd=None, timeout=None):
        timeout = timeout or self.timeout
        wd = cwd or self.cwd
        # $PWD as a shell would set it (Go's os.Getwd trusts it when it names the current directory)
        env = dict(self.env, PWD=os.fsdecode(wd))
        # the process environment beyond variables: `VERIF_UMASK` (octal) and `VERIF_NOFILE` (descriptor limit) of the case's env
        um, nof = env.pop("VERIF_UMASK", None), env.pop("VERIF_NOFILE", None)
        pre = None
        if um or nof:
            def pre():
                if um:
                    os.umask(int(um, 8))
                if nof:
                    import resource
                    resource.setrlimit(resource.RLIMIT_NOFILE, (int(nof), int(nof)))
        p = subprocess.run([self.dud_bin] + args, cwd=wd, env=env, stdout=subprocess.PIPE,
                           stderr=subprocess.PIPE, stdin=subprocess.DEVNULL, timeout=timeout, preexec_fn=pre)
        return p.returncode, ROOT_WARNING.sub(b"", p.stdout), p.stderr

    def rel_to_cwd(self, p):
        """a project-relative path as an argument relative to the invocation directory"""
        full = os.path.join(os.fsencode(self.root), p)
        return os.path.relpath(full, self.cwd)

    def abspath(self, p):
        return os.path.join(os.fsencode(self.root), p)

    # -- stage files
    def write_stage(self, sp, st):
        doc = {}
        if st.get("cmd"):
            doc["command"] = st["cmd"].decode()
        if st.get("wd") and st["wd"] != b".":
            doc["working-dir"] = st["wd"].decode()
        for key, name in (("in", "inputs"), ("out", "outputs")):
            if st.get(key):
                doc[name] = {}
                for p, fl in st[key]:
                    a = {}
                    if "d" in fl:
                        a["is-dir"] = True
                    if "r" in fl:
                        a["disable-recursion"] = True
                    if "s" in fl and key == "out":
                        a["skip-cache"] = True
                    doc[name][p.decode()] = a
        path = self.abspath(sp)
        os.makedirs(os.path.dirname(path), exist_ok=True)
        with open(path, "w") as f:
            yaml.safe_dump(doc, f, default_flow_style=False)
        if sp not in self.stage_paths:
            self.stage_paths.append(sp)
        self.cmds[sp] = st.get("cmd") or b""

    def write_index(self):
        with open(os.path.join(self.root, ".dud", "index"), "wb") as f:
            for sp in sorted(self.stage_paths):
                f.write(sp + b"\n")

    # -- workspace edits (always replace entries, never write through links)
    def remove(self, p):
        full = self.abspath(p)
        if os.path.islink(full) or (os.path.lexists(full) and not os.path.isdir(full)):
            os.unlink(full)
        elif os.path.isdir(full):
            shutil.rmtree(full)

    def put(self, kind, p, arg=None):
        full = self.abspath(p)
        self.remove(p)
        os.makedirs(os.path.dirname(full), exist_ok=True)
        if kind == "file":
            src = getattr(self, "hl_src", None)
            if src is not None and not arg.startswith("sp:"):
                # case flag `hardlinks`: a file whose content specification was already written elsewhere in this workspace
                # becomes a second NAME of that inode (cp -al, rsync --link-dest, ln) when the first one is still a regular file
                q = src.get(arg)
                if q and q != full and os.path.isfile(q) and not os.path.islink(q):
                    os.link(q, full)
                    self.hl_made = getattr(self, "hl_made", 0) + 1
                    return
                src[arg] = full
            with open(full, "wb") as f:
                if arg.startswith("sp:"):
                    s_, n_, total_ = arg.split(":")[1:]
                    f.write(gen_content(int(s_), int(n_)))
                    f.truncate(int(total_))          # a trailing hole
                else:
                    f.write(content_bytes(arg))
        elif kind == "dir":
            os.makedirs(full)
        elif kind == "fifo":
            os.mkfifo(full)
        elif kind == "flink":
            os.symlink(os.fsencode(self.foreign) if arg else b"/nonexistent/verif-dangling", full)

    def inconsistent_stages(self):
        """stages (with a vcmd command) whose outputs are not what the command yields from the inputs as they are now"""
        bad = []
        rootb = os.fsencode(self.root)

        def read(p, lossy=False):
            full = os.path.join(rootb, p)
            if os.path.isdir(full):
                out = b""
                for name in sorted(os.listdir(full)):
                    out += name + b"=" + read(os.path.join(p, name), lossy) + b";"
                return out
            with open(full, "rb") as f:
                return (b"%d" % len(f.read())) if lossy else f.read()
        for sp, cmd in self.cmds.items():
            toks = cmd.split()
            if len(toks) < 2 or toks[0] not in (b"vcmd", b"vlen"):
                continue
            lossy = toks[0] == b"vlen"
            ident, rest = toks[1], toks[2:]
            outs = rest[:rest.index(b"--")] if b"--" in rest else rest
            ins = rest[rest.index(b"--") + 1:] if b"--" in rest else []
            try:
                payload = ident + b"(" + b"/".join(read(p, lossy) for p in ins) + b")"
                for o in outs:
                    t = o.rstrip(b"/")
                    if o.endswith(b"/"):
                        ok = read(os.path.join(t, b"f")) == payload + b"#f" and read(os.path.join(t, b"sub", b"g")) == payload + b"#g" \
                            and read(os.path.join(t, b"sub", b"deep", b"h")) == payload + b"#h"
                    else:
                        ok = read(t) == payload + b"@" + o
                    if not ok:
                        bad.append(sp)
                        break
            except OSError:
                bad.append(sp)
        return bad

    def obj_path(self, d):
        return os.path.join(self.cache, d[:2], d[2:])

    # -- snapshot
    def snapshot(self, b3):
        lines = []
        rootb = os.fsencode(self.root)
        cacheb = os.fsencode(os.path.realpath(self.cache)) if os.path.exists(self.cache) else os.fsencode(self.cache)
        skip = set(self.abspath(sp) for sp in self.stage_paths)

        stage_anc = set()
        for sp in skip:
            d_ = os.path.dirname(sp)
            while len(d_) > len(rootb):
                stage_anc.add(d_)
                d_ = os.path.dirname(d_)

        def walk(d):
            for name in sorted(os.listdir(d)):
                full = os.path.join(d, name)
                if d == rootb and name == b".dud":
                    continue
                if full in skip or (full.endswith(b".tmp") and full[:-4] in skip):
                    continue            # stage files (and what a killed dud left next to them, op `staletmp`): metadata, listed elsewhere
                rel = os.path.relpath(full, rootb)
                st = os.lstat(full)
                if stat.S_ISLNK(st.st_mode) and full in self.mounts:
                    lines.append("w %s d" % hx(rel))        # a mount point: part of the workspace
                    walk(full)
                elif stat.S_ISLNK(st.st_mode):
                    # physical resolution, component by component (`dir-link/..` is NOT the lexical parent)
                    res_real = os.path.realpath(full)
                    if res_real.startswith(cacheb + b"/"):
                        parts = os.path.relpath(res_real, cacheb).split(b"/")
                        if len(parts) == 2:
                            lines.append("w %s l:obj:%s" % (hx(rel), (parts[0] + parts[1]).decode()))
                            continue
                    lines.append("w %s l:foreign:%d" % (hx(rel), 1 if os.path.exists(full) else 0))
                elif stat.S_ISDIR(st.st_mode):
                    mark = len(lines)
                    lines.append("w %s d" % hx(rel))
                    walk(full)
                    if full in stage_anc and len(lines) == mark + 1:
                        lines.pop()      # a directory that only holds stage files is not workspace data
                elif stat.S_ISREG(st.st_mode):
                    lines.append("w %s f:%s" % (hx(rel), b3.file(full)))
                else:
                    lines.append("w %s o" % hx(rel))
        walk(rootb)
        cache_info = []      # (digest-name, content digest, mode)
        stray = []
        manifests = {}       # object name -> [(child checksum, is-dir)] for objects that parse as manifests
        if os.path.isdir(self.cache):
            for hh in sorted(os.listdir(self.cache)):
                p = os.path.join(self.cache, hh)
                if os.path.isdir(p):
                    for rest in sorted(os.listdir(p)):
                        q = os.path.join(p, rest)
                        st = os.lstat(q)
                        if stat.S_ISREG(st.st_mode):
                            cache_info.append((hh + rest, b3.file(q), stat.S_IMODE(st.st_mode)))
                            if st.st_size < (1 << 22):
                                try:
                                    with open(q, "rb") as f:
                                        head = f.read(12)
                                        if head.startswith(b'{"path":') or head.startswith(b'{"Path":'):
                                            m = json.loads((head + f.read()).decode("utf-8", "surrogateescape"))
                                            kids = m.get("contents", m.get("Contents")) or {}
                                            manifests[hh + rest] = [(c.get("checksum", c.get("Checksum", "")),
                                                                     bool(c.get("is-dir", c.get("IsDir", False)))) for c in kids.values()]
                                except Exception:
                                    pass
                        else:
                            stray.append(q)
                else:
                    stray.append(p)
        for name, dg, mode in cache_info:
            lines.append("c %s %s" % (name, dg))
        rem = []
        for hh in sorted(os.listdir(self.remote_dir)):
            p = os.path.join(self.remote_dir, hh)
            if os.path.isdir(p):
                for rest in sorted(os.listdir(p)):
                    rem.append(hh + rest)
                    lines.append("r %s" % (hh + rest))
        stage_lines, stage_docs = self.stage_lines()
        lines += stage_lines
        meta = {}
        dd = os.path.join(self.root, ".dud")
        for name in sorted(os.listdir(dd)):
            q = os.path.join(dd, name)
            if os.path.isfile(q) and name != "lock":
                meta[name] = hashlib.sha256(open(q, "rb").read()).hexdigest()
        meta["<cache directory exists>"] = str(os.path.isdir(self.cache))
        rem_modes = {}
        for d_ in rem:
            rem_modes[d_] = stat.S_IMODE(os.lstat(os.path.join(self.remote_dir, d_[:2], d_[2:])).st_mode)
        return dict(lines=lines, cache=cache_info, stray=stray, remote=rem, stages=stage_docs, meta=meta, remote_modes=rem_modes,
                    manifests=manifests)

    def stage_lines(self):
        out = []
        docs = {}
        for sp in sorted(self.stage_paths):
            path = self.abspath(sp)
            try:
                raw = open(path, "rb").read()
            except Exception as e:
                out.append("s %s MISSING" % hx(sp))
                docs[sp] = None
                continue
            try:
                doc = yaml.safe_load(raw) or {}
                if not isinstance(doc, dict):
                    raise ValueError("not a mapping")
            except Exception as e:
                out.append("s %s UNREADABLE" % hx(sp))
                docs[sp] = (raw, None)
                continue
            docs[sp] = (raw, doc)
            toks = ["s", hx(sp), doc.get("checksum") or "-"]
            ins = doc.get("inputs") or {}
            outs = doc.get("outputs") or {}
            for p in sorted(ins, key=lambda s: str(s).encode()):
                a = ins[p] or {}
                toks.append("i:%s:%s" % (hx(os.path.normpath(str(p))), a.get("checksum") or "-"))
            for p in sorted(outs, key=lambda s: str(s).encode()):
                a = outs[p] or {}
                fl = ("d" if a.get("is-dir") else "") + ("r" if a.get("disable-recursion") else "") + ("s" if a.get("skip-cache") else "")
                toks.append("o:%s:%s:%s" % (hx(os.path.normpath(str(p))), a.get("checksum") or "-", fl or "-"))
            out.append(" ".join(toks))
        return out, docs

    # -- status
    def status_lines(self, targets):
        args = [os.fsdecode(self.rel_to_cwd(t)) for t in targets]
        rc, so, se = self.dud(["status", "--debug"] + args)
        if rc != 0:
            return rc, se, []
        lines = []
        try:
            js = json.loads(so.decode(errors="surrogateescape"))
        except Exception as e:
            return 99, so, []
        rc2, so2, se2 = self.dud(["status"] + args)
        human = {}
        cur = None
        for ln in so2.decode(errors="surrogateescape").splitlines():
            if not ln.strip():
                continue
            if ln.startswith("  "):
                parts = re.split(r"\s{2,}", ln.strip(), maxsplit=1)
                if cur is not None and len(parts) == 2:
                    human[(cur, parts[0])] = parts[1]
            else:
                parts = re.split(r"\s{2,}", ln.strip(), maxsplit=1)
                cur = parts[0]
                human[(cur, None)] = parts[1] if len(parts) > 1 else ""

        def tree(name, st):
            kids = st.get("ChildrenStatus") or {}
            s = "(%s %d %s %d %d %d" % (hx(name.encode("utf-8", "surrogateescape")), 1 if st.get("is-dir") else 0,
                                         st["WorkspaceFileStatus"].replace(" ", "_"), int(st["HasChecksum"]),
                                         int(st["ChecksumInCache"]), int(st["ContentsMatch"]))
            for k in sorted(kids, key=lambda s: s.encode("utf-8", "surrogateescape")):
                s += " " + tree(k, kids[k])
            return s + ")"
        for sp in js:
            ss = js[sp]
            d = "up-to-date" if ss["ChecksumMatches"] else ("modified" if ss["HasChecksum"] else "not_checksummed")
            lines.append("t %s %s" % (hx(sp), d))
            hd = human.get((sp, None), "")
            want = "stage definition " + d.replace("_", " ")
            if hd != want:
                lines.append("t-human-mismatch %s %r" % (hx(sp), hd))
            for ap, st in (ss.get("ArtifactStatus") or {}).items():
                text = human.get((sp, ap), "?")
                lines.append("a %s %s %s %s" % (hx(sp), hx(ap), hx(text), tree(ap, st)))
        return 0, b"", lines


def convert_old_schema(proj, b3, sel=None):
    """Rewrite the manifests of the cache in the pre-tag schema, bottom-up; re-key objects and stage
    files. `sel`: only the manifests whose (original) digest starts with one of these hex digits are
    converted, the others keep their schema and are only re-keyed when a child was.
    Returns [(old digest, new digest)]."""
    objs = {}
    for hh in os.listdir(proj.cache):
        p = os.path.join(proj.cache, hh)
        if os.path.isdir(p):
            for rest in os.listdir(p):
                objs[hh + rest] = os.path.join(p, rest)
    mans = {}
    for d, p in objs.items():
        data = open(p, "rb").read()
        if data.startswith(b'{"path":'):
            try:
                mans[d] = json.loads(data.decode("utf-8", "surrogateescape"))
            except Exception:
                pass
    ren = {}
    todo = dict(mans)
    while todo:
        progressed = False
        for d, m in list(todo.items()):
            kids = m["contents"]
            if any(c.get("is-dir") and c["checksum"] in todo for c in kids.values()):
                continue
            if sel is not None and d[0] not in sel:
                raw = open(objs[d], "rb").read()
                data = raw
                for c in kids.values():
                    if c["checksum"] in ren:
                        data = data.replace(c["checksum"].encode(), ren[c["checksum"]].encode())
                del todo[d]
                progressed = True
                if data == raw:
                    continue
                nd = b3.data(data, proj.base)
                os.chmod(objs[d], 0o644)
                os.unlink(objs[d])
                np = proj.obj_path(nd)
                os.makedirs(os.path.dirname(np), exist_ok=True)
                with open(np, "wb") as f:
                    f.write(data)
                os.chmod(np, 0o444)
                ren[d] = nd
                continue
            fields = []
            for k in sorted(kids, key=lambda s: s.encode("utf-8", "surrogateescape")):
                c = kids[k]
                cs = ren.get(c["checksum"], c["checksum"])
                kb = k.encode("utf-8", "surrogateescape")
                pb = c.get("path", "").encode("utf-8", "surrogateescape")
                fields.append(gojson_str(kb) + b':{"Checksum":' + gojson_str(cs.encode()) + b',"Path":' + gojson_str(pb) +
                              b',"IsDir":' + (b"true" if c.get("is-dir") else b"false") +
                              b',"DisableRecursion":false,"SkipCache":false}')
            data = b'{"Path":' + gojson_str(m["path"].encode("utf-8", "surrogateescape")) + b',"Contents":{' + b",".join(fields) + b"}}\n"
            nd = b3.data(data, proj.base)
            os.chmod(objs[d], 0o644)
            os.unlink(objs[d])
            np = proj.obj_path(nd)
            os.makedirs(os.path.dirname(np), exist_ok=True)
            with open(np, "wb") as f:
                f.write(data)
            os.chmod(np, 0o444)
            ren[d] = nd
            del todo[d]
            progressed = True
        if not progressed:
            break
    # stage files
    for sp in proj.stage_paths:
        path = proj.abspath(sp)
        txt = open(path).read()
        for a, b in ren.items():
            txt = txt.replace(a, b)
        with open(path, "w") as f:
            f.write(txt)
    for d in ren:
        proj.harness_removed.add(d)
    return sorted(ren.items())


def apply_op(proj, op, mstep, b3):
    """Execute one op on the implementation. Returns dict(rc, err, extra_lines, x)."""
    k = op[0]
    r = dict(rc=0, err="-", lines=[], x=[], stderr=b"", log=None)
    def targets(ts):
        return [os.fsdecode(proj.rel_to_cwd(t)) for t in ts]
    if k == "commit":
        rc, so, se = proj.dud(["commit"] + (["--copy"] if op[1] == "c" else []) + targets(op[2]))
    elif k == "checkout":
        rc, so, se = proj.dud(["checkout"] + (["--copy"] if op[1] == "c" else []) + (["--single-stage"] if op[2] else []) + targets(op[3]))
    elif k in ("run", "push", "fetch"):
        if k == "run" and os.path.exists(proj.log):
            os.unlink(proj.log)
        rc, so, se = proj.dud([k] + (["--single-stage"] if op[1] else []) + targets(op[2]))
        if k == "run":
            r["log"] = [l for l in open(proj.log, "rb").read().split(b"\n") if l] if os.path.exists(proj.log) else []
            r["inconsistent"] = proj.inconsistent_stages()
    elif k == "pull":
        rc, so, se = proj.dud(["pull"] + (["--copy"] if op[1] == "c" else []) + (["--single-stage"] if op[2] else []) + targets(op[3]))
    elif k == "status":
        rc, se, lines = proj.status_lines(op[1])
        r["lines"] = lines
    elif k == "graph":
        rc, so, se = proj.dud(["graph"] + targets(op[1]))
    elif k in ("stageadd", "stagerm"):
        rc, so, se = proj.dud(["stage", "add" if k == "stageadd" else "remove"] + targets(op[1]))
    elif k in ("relink", "corrupt", "rmobj") and not mstep.get("x"):
        rc, se = 0, b""
        r["lines"].append("harness: `%s` skipped, the model names no object" % k)
    else:
        rc, se = 0, b""
        if k == "write":
            proj.put("file", op[1], op[2])
        elif k == "writeold":
            proj.put("file", op[1], op[2])
            os.utime(proj.abspath(op[1]), (1577836800, 1577836800))        # the new content carries an old mtime
        elif k == "rm":
            proj.remove(op[1])
        elif k == "mv":
            os.makedirs(os.path.dirname(proj.abspath(op[2])), exist_ok=True)
            os.rename(proj.abspath(op[1]), proj.abspath(op[2]))
        elif k == "mkdir":
            proj.put("dir", op[1])
        elif k == "fifo":
            proj.put("fifo", op[1])
        elif k == "flink":
            proj.put("flink", op[1], op[2])
        elif k == "lookalike":
            # a link whose target string ends in the right <hh>/<rest> but resolves to other bytes elsewhere
            full = proj.abspath(op[1])
            tail = b"ab/cdef"
            if os.path.islink(full):
                parts = os.readlink(full).split(b"/")
                if len(parts) >= 2:
                    tail = b"/".join(parts[-2:])
            fake = os.path.join(os.fsencode(proj.base), b"fakecache", tail)
            os.makedirs(os.path.dirname(fake), exist_ok=True)
            with open(fake, "wb") as f:
                f.write(b"look-alike bytes")
            proj.remove(op[1])
            os.makedirs(os.path.dirname(full), exist_ok=True)
            os.symlink(fake, full)
        elif k == "wlink":
            full = proj.abspath(op[1])
            tgt = os.path.relpath(proj.abspath(op[2]), os.path.dirname(full))
            proj.remove(op[1])
            os.makedirs(os.path.dirname(full), exist_ok=True)
            os.symlink(tgt, full)
        elif k == "lexlink":
            # target text: <up to base>/lexmnt/../<base-relative path of the cache object>, where base/lexmnt is a symlink to a
            # directory two levels down: lexically the text names the cache object, physically it names nothing
            full = proj.abspath(op[1])
            base_b = os.fsencode(proj.base)
            obj = None
            if os.path.islink(full):
                obj = os.path.realpath(full)
            proj.remove(op[1])
            os.makedirs(os.path.dirname(full), exist_ok=True)
            real_dir = os.path.dirname(os.path.realpath(os.path.dirname(full)) + b"/x")
            if obj is None or not obj.startswith(os.path.realpath(base_b) + b"/"):
                os.symlink(b"/nonexistent/verif-dangling", full)
            else:
                mnt = os.path.join(base_b, b"lexmnt")
                if not os.path.lexists(mnt):
                    os.makedirs(os.path.join(base_b, b"lexreal", b"sub"))
                    os.symlink(b"lexreal/sub", mnt)
                rb = os.path.realpath(base_b)
                text = os.path.join(os.path.relpath(rb, real_dir), b"lexmnt", b"..", os.path.relpath(obj, rb))
                os.symlink(text, full)
        elif k == "rmindex":
            ip = os.path.join(proj.root, ".dud", "index")
            if os.path.exists(ip):
                os.unlink(ip)
        elif k in ("fdirlink", "dirlink"):
            # fdirlink: a link to some existing directory outside the project; dirlink: the directory is first copied out (links
            # followed, same names and bytes) and then replaced by a link to that copy ("the data lives on another disk")
            full = proj.abspath(op[1])
            proj.ext_n = getattr(proj, "ext_n", 0) + 1
            ext = os.path.join(os.fsencode(proj.base), b"external-dir-%d" % proj.ext_n)
            if k == "dirlink" and os.path.isdir(full):
                shutil.copytree(full, ext, symlinks=False)
            else:
                os.makedirs(os.path.join(ext, b"sub"))
                with open(os.path.join(ext, b"keep.txt"), "wb") as f:
                    f.write(b"outside data")
            proj.remove(op[1])
            os.makedirs(os.path.dirname(full), exist_ok=True)
            os.symlink(ext, full)
        elif k == "writeolddir":
            proj.put("file", op[1], op[2])
            d_ = os.path.dirname(proj.abspath(op[1]))
            os.utime(proj.abspath(op[1]), (1577836800, 1577836800))
            os.utime(d_, (1577836800, 1577836800))
        elif k == "append":
            full = proj.abspath(op[1])
            new = content_bytes(op[2])
            if os.path.isfile(full) and not os.path.islink(full) and new.startswith(open(full, "rb").read()):
                old_len = os.path.getsize(full)
                with open(full, "ab") as f:        # in place: same inode, as an editor or `>>` would
                    f.write(new[old_len:])
            else:
                proj.put("file", op[1], op[2])
        elif k == "rmcachedir":
            # as in a fresh clone: the (empty) cache directory does not exist
            if os.path.isdir(proj.cache) and not any(os.path.isdir(os.path.join(proj.cache, x)) for x in os.listdir(proj.cache)):
                if os.path.islink(proj.cache):
                    os.unlink(proj.cache)
                else:
                    shutil.rmtree(proj.cache)
        elif k == "movecache":
            new = os.path.join(proj.base, "relocated-cache-%d" % (len(proj.harness_removed) + 1))
            os.rename(proj.cache, new)
            proj.cache = new
            proj.cache_mode = "abs" if proj.cache_mode in ("rel", "sym", "symx") else proj.cache_mode
            cfg = os.path.join(proj.root, ".dud", "config.yaml")
            lines = [l for l in open(cfg).read().splitlines() if not l.startswith("cache:")]
            open(cfg, "w").write("\n".join(lines) + "\ncache: %s\n" % new)
        elif k == "uncopy":
            full = proj.abspath(op[1])
            data = open(full, "rb").read()
            os.unlink(full)
            with open(full, "wb") as f:
                f.write(data)
        elif k == "relink":
            d = mstep["x"][0][0]
            full = proj.abspath(op[1])
            proj.remove(op[1])
            os.makedirs(os.path.dirname(full), exist_ok=True)
            os.symlink(os.path.relpath(os.fsencode(proj.obj_path(d)), os.path.dirname(full)), full)
        elif k == "corrupt":
            d = mstep["x"][0][0]
            p = proj.obj_path(d)
            if os.path.exists(p):
                os.chmod(p, 0o644)
                with open(p, "wb") as f:
                    if op[2].startswith("sp:"):
                        s_, n_, total_ = op[2].split(":")[1:]
                        f.write(gen_content(int(s_), int(n_)))
                        f.truncate(int(total_))          # the object is EXTENDED by a hole
                    else:
                        f.write(content_bytes(op[2]))
                os.chmod(p, 0o444)
                if b3.file(p) != d:
                    proj.harness_corrupted.add(d)
            else:
                r["lines"].append("harness: object %s to corrupt is absent" % d)
        elif k == "rmobj":
            d = mstep["x"][0][0]
            p = proj.obj_path(d)
            if os.path.exists(p):
                os.chmod(p, 0o644)
                os.unlink(p)
                proj.harness_removed.add(d)
            else:
                r["lines"].append("harness: object %s to remove is absent" % d)
        elif k == "wipecache":
            for hh in os.listdir(proj.cache):
                p = os.path.join(proj.cache, hh)
                if os.path.isdir(p):
                    for rest in os.listdir(p):
                        proj.harness_removed.add(hh + rest)
                    shutil.rmtree(p)
                else:
                    os.unlink(p)
        elif k == "clone":
            rootb = os.fsencode(proj.root)
            keep = set(proj.abspath(sp) for sp in proj.stage_paths)
            def prune(d):
                for name in os.listdir(d):
                    full = os.path.join(d, name)
                    if d == rootb and name == b".dud":
                        continue
                    if full in keep:
                        continue
                    if os.path.isdir(full) and not os.path.islink(full):
                        prune(full)
                        if not os.listdir(full) and not (proj.cwd + b"/").startswith(full + b"/") and proj.cwd != full:
                            os.rmdir(full)
                    else:
                        os.unlink(full)
            prune(rootb)
        elif k == "oldschema":
            r["x"] = [list(p) for p in convert_old_schema(proj, b3, op[1] if len(op) > 1 else None)]
        elif k == "moveproj":
            proj.move()
        elif k == "setcmd":
            path = proj.abspath(op[1])
            try:
                doc = yaml.safe_load(open(path, "rb").read()) or {}
                if not isinstance(doc, dict):
                    raise ValueError("not a mapping")
            except Exception:
                # the stage file dud wrote cannot be loaded: the edit replaces it by the definition alone (judged by the oracles)
                r["lines"].append("harness: stage file %s is unreadable" % hx(op[1]))
                doc = {}
            doc["command"] = op[2].decode()
            with open(path, "w") as f:
                yaml.safe_dump(doc, f, default_flow_style=False)
            proj.cmds[op[1]] = op[2]
        elif k == "dudtmp":
            # another program's (or a killed dud's) temporary file inside .dud/
            with open(os.path.join(os.fsencode(proj.root), b".dud", op[1]), "wb") as f:
                f.write(b"leftover " + op[1] + b"\n")
        elif k == "staletmp":
            # what a dud killed while writing this stage file left behind: `<stage>.tmp`, here LONGER than any stage file
            with open(proj.abspath(op[1]) + b".tmp", "wb") as f:
                f.write(b"# interrupted write\n" + open(proj.abspath(op[1]), "rb").read() + b"#" * int(op[2]) + b"\nzz-leftover: [unterminated\n")
        elif k == "setskip":
            # the user edits the stage file: an output becomes `skip-cache: true` (everything else, the recorded checksum too, stays)
            path = proj.abspath(op[1])
            doc = yaml.safe_load(open(path, "rb").read()) or {}
            ent = (doc.get("outputs") or {}).get(op[2].decode())
            if ent is None:
                ent = {}
            ent["skip-cache"] = True
            doc.setdefault("outputs", {})[op[2].decode()] = ent
            with open(path, "w") as f:
                yaml.safe_dump(doc, f, default_flow_style=False)
        else:
            raise ValueError(op)
    r["rc"] = rc
    r["stderr"] = se if isinstance(se, bytes) else b""
    if rc != 0:
        r["err"] = err_class(r["stderr"])
    return r


DUD_OPS = ("commit", "checkout", "status", "run", "push", "fetch", "graph", "pull")


def run_case(args):
    """Execute a case on the implementation and diff against its model trace.
    Returns a Run dict: steps (with snapshots), diffs (list of str)."""
    dud, driver, case, mtrace, opts = args
    base = tempfile.mkdtemp(prefix="case.", dir=opts["scratch"])
    b3 = B3(driver)
    proj = None
    out = dict(id=case["id"], steps=[], diffs=[], error=None, case=case)
    try:
        proj = Project(dud, base, odd=bool(case.get("oddpath")), cache_mode=case.get("cache", "rel"), cwd_sub=case.get("cwd", b""),
                       remote=True, env_extra=case.get("env"), via_symlink=bool(case.get("via_symlink")))
        proj.timeout = case.get("timeout", 120)
        if case.get("hardlinks"):
            proj.hl_src = {}
        for k, p, *rest in case["init"]:
            proj.put(k, p, rest[0] if rest else None)
        out["hardlinks_made"] = getattr(proj, "hl_made", 0)
        for sp, st in case["stages"]:
            proj.write_stage(sp, st)
        proj.write_index()
        out["initial"] = proj.snapshot(b3)
        model_dead = False
        for i, op in enumerate(list(case["ops"]) + list(case.get("tail_ops", []))):
            ms = mtrace[i] if mtrace and i < len(mtrace) and i < len(case["ops"]) else None
            before = out["steps"][-1]["snap"] if out["steps"] else out["initial"]
            r = apply_op(proj, op, ms or dict(x=[]), b3)
            snap = proj.snapshot(b3)
            lock = os.path.exists(os.path.join(proj.root, ".dud", "lock"))
            step = dict(i=i, op=op, rc=r["rc"], err=r["err"], snap=snap, status=r["lines"], x=r["x"], log=r["log"],
                        inconsistent=r.get("inconsistent"),
                        stderr=r["stderr"].decode(errors="replace")[-400:], lock=lock, race=b"DATA RACE" in r["stderr"],
                        corrupted=sorted(proj.harness_corrupted), removed=sorted(proj.harness_removed))
            out["steps"].append(step)
            if ms is None or ms["status"] == "dead" or model_dead:
                continue
            mok = ms["status"] == "ok"
            if not mok and op[0] not in DUD_OPS:
                break           # a harness-side edit the model cannot apply (e.g. no object to corrupt): the case ends here
            if mok != (r["rc"] == 0):
                out["diffs"].append("step %d %s: model %s, implementation exit %d (%s) %s" % (
                    i, op_text(op), ms["status"], r["rc"], r["err"], step["stderr"][-200:]))
                if not mok:
                    model_dead = True
                continue
            if not mok:
                # error predicted and observed: the state after a failed command is not predicted; the remaining
                # operations still run on the implementation (the oracles see them), without model comparison
                model_dead = True
                continue
            want = set(l for l in ms["lines"])
            got = set(snap["lines"]) | set(r["lines"])
            if case.get("hardlinks"):
                # The model has no inodes. rename(2) of one name of an inode onto another name of it is a successful no-op, so a
                # link-mode commit leaves every further name of a committed inode in place as a regular file (now sharing the
                # object's inode) where the model predicts a link; dud's status then says "up-to-date" for it, not "(link)".
                # In these cases the exit status of every command, the cache and the recorded checksums are compared with the
                # model; the KIND of workspace entries and the status wording are left to the property oracle (DESIGN.md section 3).
                want = set(l for l in want if not l.startswith(("w ", "a ")))
                got = set(l for l in got if not l.startswith(("w ", "a ")))
            for l in sorted(want - got):
                out["diffs"].append("step %d %s: model-only %s" % (i, op_text(op), l))
            for l in sorted(got - want):
                out["diffs"].append("step %d %s: impl-only  %s" % (i, op_text(op), l))
            if ms["x"] and r["x"] and sorted(map(tuple, ms["x"])) != sorted(map(tuple, r["x"])):
                out["diffs"].append("step %d %s: digest renaming differs: model %s impl %s" % (i, op_text(op), ms["x"], r["x"]))
            if ms["log"] is not None and r["log"] is not None:
                ids = {}
                for sp_, cmd_ in proj.cmds.items():
                    toks_ = (cmd_ or b"").split()
                    ids[sp_] = toks_[1] if len(toks_) > 1 else b"?"
                if sorted(ids.get(x, x) for x in ms["log"]) != sorted(r["log"]):
                    out["diffs"].append("step %d %s: executed stages differ: model %s impl %s" % (i, op_text(op), ms["log"], r["log"]))
            if len(out["diffs"]) > 40:
                break
    except subprocess.TimeoutExpired as e:
        out["hang"] = "command %s did not finish within %s s" % (e.cmd[1:4], e.timeout)
    except Exception as e:
        import traceback
        out["error"] = traceback.format_exc()
    finally:
        b3.close()
        if proj is not None and not opts.get("keep"):
            proj.cleanup()
        elif not opts.get("keep"):
            shutil.rmtree(base, ignore_errors=True)
    return out


def normalise_case(c):
    """`dud run --single-stage` WITHOUT targets runs the stages one by one in Go map iteration order, which is random:
    with a stale upstream the outcome legitimately depends on that order. The explicit form (all stage paths, sorted)
    has a defined order; generators' bare form is rewritten to it for the model and the implementation alike."""
    ops = []
    for op in c.get("ops", []):
        if op[0] == "run" and op[1] and not op[2]:
            op = ("run", True, sorted(sp for sp, st in c["stages"]))
        ops.append(op)
    c["ops"] = ops
    return c


def run_cases(dud, driver, cases, with_model=True, jobs=None, keep=False):
    cases = [normalise_case(c) for c in cases]
    traces = model_traces(driver, cases) if with_model else {}
    opts = dict(scratch=scratch(), keep=keep)
    args = [(dud, driver, c, traces.get(c["id"]), opts) for c in cases]
    jobs = jobs or min(16, os.cpu_count() or 4)
    if jobs == 1 or len(args) <= 1:
        runs = [run_case(a) for a in args]
    else:
        with Pool(jobs) as pool:
            runs = pool.map(run_case, args, chunksize=1)
    # a command that did not come back within its limit while 16 cases ran side by side (and whatever else loads the machine) is run
    # again ALONE with five times the limit: only a command that does not come back then is reported as hanging
    confirmed = False
    for k, r in enumerate(runs):
        if r.get("hang") and not confirmed:
            c2 = dict(args[k][2], timeout=3 * args[k][2].get("timeout", 120))
            r2 = run_case((args[k][0], args[k][1], c2, args[k][3], args[k][4]))
            r2["case"] = args[k][2]
            r2["retried_alone"] = True
            runs[k] = r2
            if r2.get("hang"):
                confirmed = True          # it hangs on an idle machine too: the other cases that hung are not run again
    return runs, traces
