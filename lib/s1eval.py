"""Oracles evaluated on implementation runs of stream S1 (independent of the model)."""
from s1 import hx, unhx, op_text


def parse_snap(snap):
    """-> (ws: {path: ('f',digest)|('d',)|('lo',digest)|('lf',live)|('o',)}, cache: {name: content digest})"""
    ws = {}
    for l in snap["lines"]:
        if l.startswith("w "):
            _, p, v = l.split(" ", 2)
            p = unhx(p)
            if v.startswith("f:"):
                ws[p] = ("f", v[2:])
            elif v == "d":
                ws[p] = ("d",)
            elif v.startswith("l:obj:"):
                ws[p] = ("lo", v[6:])
            elif v.startswith("l:foreign:"):
                ws[p] = ("lf", v[-1])
            else:
                ws[p] = ("o",)
    cache = {name: dg for name, dg, mode in snap["cache"]}
    return ws, cache


def logical(snap, under=None, skip_dirs_top=False):
    """workspace with links into the cache followed; restricted to the subtree `under`"""
    ws, cache = parse_snap(snap)
    out = {}
    for p, v in ws.items():
        if under is not None and not (p == under or p.startswith(under + b"/")):
            continue
        if v[0] == "lo":
            v = ("f", cache.get(v[1], "dangling:" + v[1]))
        out[p] = v
    if skip_dirs_top and under is not None:
        # non-recursive directory artifact: sub-directories are not tracked
        keep = {}
        for p, v in out.items():
            rel = p[len(under) + 1:] if p != under else b""
            if b"/" in rel:
                continue
            if rel and v[0] == "d":
                continue
            keep[p] = v
        out = keep
    return out


def reachable(snap, root):
    """objects reachable from a recorded checksum through the manifests of this snapshot"""
    seen = set()
    todo = [root]
    while todo:
        d = todo.pop()
        if d in seen or not d or d == "-":
            continue
        seen.add(d)
        for cs, isdir in snap["manifests"].get(d, []):
            todo.append(cs)
    return seen


def recorded(snap):
    """{artifact path: recorded checksum} from the stage files of a snapshot"""
    rec = {}
    for l in snap["lines"]:
        if l.startswith("s "):
            for t in l.split()[3:]:
                parts = t.split(":")
                rec[unhx(parts[1])] = parts[2]
    return rec


def artifacts(case, outputs_only=True):
    arts = []
    for sp, st in case["stages"]:
        for p, fl in st.get("out", []):
            arts.append((p, fl, sp))
    return arts


def cache_wf(snap, corrupted=(), removed=()):
    """C02 oracle on one snapshot: every object named by the BLAKE3 of its bytes, mode 0444"""
    bad = []
    for name, dg, mode in snap["cache"]:
        if name in corrupted:
            continue
        if len(name) != 64 or name != name.lower() or any(c not in "0123456789abcdef" for c in name):
            bad.append("object name %s is not 64 lowercase hex" % name)
        elif name != dg:
            bad.append("object %s holds bytes hashing to %s" % (name, dg))
        if mode != 0o444:
            bad.append("object %s has mode %o" % (name, mode))
    return bad


def describe(case):
    return dict(id=case["id"], cache=case.get("cache"), cwd=case.get("cwd", b"").decode(),
                stages=[(sp.decode(), {k: ([(p.decode("utf-8", "replace"), f) for p, f in v] if isinstance(v, list) else v.decode("utf-8", "replace"))
                                       for k, v in st.items()}) for sp, st in case["stages"]],
                entries=len(case["init"]), ops=[op_text(o) for o in case["ops"]])


def case_json(case):
    """lossless JSON form of a case (for replay files)"""
    def enc(x):
        if isinstance(x, bytes):
            return {"b": x.hex()}
        if isinstance(x, (list, tuple)):
            return [enc(y) for y in x]
        if isinstance(x, dict):
            return {"d": {k: enc(v) for k, v in x.items()}}
        return x
    return enc(case)


def case_unjson(j):
    def dec(x):
        if isinstance(x, dict) and "b" in x and len(x) == 1:
            return bytes.fromhex(x["b"])
        if isinstance(x, dict) and "d" in x and len(x) == 1:
            return {k: dec(v) for k, v in x["d"].items()}
        if isinstance(x, list):
            return [dec(y) for y in x]
        return x
    c = dec(j)
    c["init"] = [tuple(e) for e in c["init"]]
    c["stages"] = [(sp, {k: ([tuple(a) for a in v] if isinstance(v, list) else v) for k, v in st.items()}) for sp, st in c["stages"]]
    c["ops"] = [tuple(o) for o in c["ops"]]
    return c


def evaluate(R, runs, oracle, finding_of=None, nontrivial=None, max_report=5):
    """Three-way classification of S1 runs (DESIGN §0).
    oracle(run) -> list of (short-tag, text) property violations observed on the implementation.
    finding_of(run, tag, text) -> (finding id, description) if this violation is a listed known finding."""
    reported = 0
    diverged = []
    for run in runs:
        case = run["case"]
        R.count(case["id"], nontrivial(run) if nontrivial else True)
        if run.get("error"):
            R.violation(dict(kind="harness-error", case=case_json(case), detail=run["error"]), nofail=True)
            continue
        viols = oracle(run)
        if run.get("hang") and not any(t == "hang" for t, _ in viols):
            # a dud command that does not come back is a failing input for every property that promises an outcome
            viols = list(viols) + [("hang", run["hang"])]
        unknown = []
        in_region = False
        for tag, text in viols:
            kf = finding_of(run, tag, text) if finding_of else None
            if kf:
                R.known_finding(kf[0], kf[1])
                in_region = True
            else:
                unknown.append((tag, text))
        if unknown and reported < max_report:
            reported += 1
            R.violation(dict(kind="property-violated-on-implementation", case=case_json(case), describe=describe(case),
                             violations=[t for _, t in unknown], model_diffs=run["diffs"][:10]))
        elif unknown:
            R.violation(dict(kind="property-violated-on-implementation", case_id=case["id"], violations=[t for _, t in unknown][:3]))
        if run["diffs"] and not unknown and not in_region:
            diverged.append(run)
        if not run["diffs"]:
            R.cov["traces_validated_against_impl"] += 1
    for run in diverged[:max_report]:
        R.violation(dict(kind="model-implementation-disagreement", stream="S1", case=case_json(run["case"]),
                         describe=describe(run["case"]), diffs=run["diffs"][:12],
                         note="the implementation no longer behaves as the model the theorems are about; "
                              "the property oracle held on every run of this check"), nofail=True)
    return diverged


def parse_tree(s):
    """parse '(name isDir ws has inC cm (child...) ...)' -> dict"""
    pos = [0]

    def node():
        assert s[pos[0]] == "("
        pos[0] += 1
        j = pos[0]
        while s[j] not in "()":
            j += 1
        toks = s[pos[0]:j].split()
        pos[0] = j
        kids = []
        while s[pos[0]] == "(":
            kids.append(node())
            while s[pos[0]] == " ":
                pos[0] += 1
        assert s[pos[0]] == ")"
        pos[0] += 1
        while pos[0] < len(s) and s[pos[0]] == " ":
            pos[0] += 1
        return dict(name=unhx(toks[0]), isdir=toks[1] == "1", ws=toks[2], has=toks[3] == "1", inc=toks[4] == "1",
                    cm=toks[5] == "1", kids=kids)
    return node()


def status_of(step):
    """{artifact path: dict(text, tree)} from the status lines of a step"""
    out = {}
    for l in step["status"]:
        if l.startswith("a "):
            _, sp, ap, text, tree = l.split(" ", 4)
            out[unhx(ap)] = dict(stage=unhx(sp), text=unhx(text).decode("utf-8", "replace"), tree=parse_tree(tree))
    return out


def generic_main(prop, tier, replay, make_cases, oracle, finding_of=None, nontrivial=None, rule="", trusted=(),
                 n_quick=80, n_thorough=800, seed_salt=0, extra=None, audit=True):
    import random, json, vlib, s1
    R = vlib.Result(prop, tier)
    R.cov["rule"] = rule
    R.cov["checker_cmd"] = "cd lean && lake build DudModel.Props.%s && lake env lean <audit file: #print axioms of every theorem>" % prop
    R.cov["trusted_base"] = vlib.TRUSTED_COMMON + list(trusted)
    dud = vlib.build_dud()
    drv = vlib.build_driver()
    rng = random.Random(vlib.seed() * 1000 + seed_salt)
    if replay:
        j = json.load(open(replay))
        cases = [case_unjson(v["case"]) for v in j.get("violations", []) + j.get("unproved", []) if "case" in v]
        stats = {}
    else:
        cases, stats = make_cases(rng, tier, n_quick if tier == "quick" else n_thorough)
    runs, traces = s1.run_cases(dud, drv, cases)
    evaluate(R, runs, oracle, finding_of, nontrivial)
    R.cov["distribution"] = stats
    mix = {}
    for c in cases:
        for op in c["ops"]:
            mix[op[0]] = mix.get(op[0], 0) + 1
    R.cov["op_mix"] = mix
    for run in runs[:3]:
        R.sample(describe(run["case"]))
    if extra:
        extra(R, dud, drv, rng, tier, runs)
    if audit:
        R.absorb_audit(vlib.lean_audit(prop))
        if tier == "thorough":
            ok, log = vlib.leanchecker(["DudModel.Props." + prop])
            R.notes["leanchecker"] = "ok" if ok else log
            if not ok:
                R.violation(dict(kind="leanchecker", detail=log), nofail=True)
    return R.finish()
