"""Stream S2: system-call traces of the real binary (tools/sysstep.c), kill at every k, fault at every k."""
import os, re, shutil, subprocess, tempfile
import vlib, s1
from s1 import hx, unhx

ENV_SEQ = dict(DUD_VERIF_SHARED="0", DUD_VERIF_DEDICATED="1")


class Scenario:
    """A prepared project plus one dud command to be traced / killed / fault-injected."""

    def __init__(self, dud, case, b3, sequential=True):
        self.case = case
        self.b3 = b3
        self.base = tempfile.mkdtemp(prefix="s2.", dir=vlib.scratch())
        env = dict(case.get("env") or {})
        if sequential:
            env.update(ENV_SEQ)
        self.proj = s1.Project(dud, os.path.join(self.base, "p"), cache_mode=case.get("cache", "rel"), cwd_sub=case.get("cwd", b""),
                               remote=True, env_extra=env)
        mounts = []
        for k, p, *rest in case["init"]:
            if k == "mount":
                mounts.append(self.proj.add_mount(p))
                continue
            self.proj.put(k, p, rest[0] if rest else None)
        for sp, st in case["stages"]:
            self.proj.write_stage(sp, st)
        self.proj.write_index()
        for op in case["ops"]:
            r = s1.apply_op(self.proj, op, dict(x=[]), b3)
        # make sure the user config directory exists (first `prepare` creates it)
        self.proj.dud(["status"])
        self.pristine = self.base + ".pristine"
        self.extra_dirs = []
        if self.proj.cache_mode == "shm":
            self.extra_dirs.append(self.proj.shm)
        self.extra_dirs += mounts
        self.save()

    def save(self):
        shutil.rmtree(self.pristine, ignore_errors=True)
        subprocess.run(["cp", "-a", self.base, self.pristine], check=True)
        for i, d in enumerate(self.extra_dirs):
            shutil.rmtree(self.pristine + ".x%d" % i, ignore_errors=True)
            subprocess.run(["cp", "-a", d, self.pristine + ".x%d" % i], check=True)

    def restore(self):
        shutil.rmtree(self.base, ignore_errors=True)
        subprocess.run(["cp", "-a", self.pristine, self.base], check=True)
        for i, d in enumerate(self.extra_dirs):
            shutil.rmtree(d, ignore_errors=True)
            subprocess.run(["cp", "-a", self.pristine + ".x%d" % i, d], check=True)

    def cleanup(self):
        shutil.rmtree(self.base, ignore_errors=True)
        shutil.rmtree(self.pristine, ignore_errors=True)
        for i, d in enumerate(self.extra_dirs):
            shutil.rmtree(d, ignore_errors=True)
            shutil.rmtree(self.pristine + ".x%d" % i, ignore_errors=True)

    def run(self, sysstep, args, kill=None, fault=None, timeout=60, sig=None):
        log = os.path.join(self.base, "sys.log")
        cmd = [sysstep, "-o", log]
        if kill is not None:
            cmd += ["-k", str(kill)]
            if sig:
                cmd += ["-s", str(sig)]       # a catchable signal (SIGTERM / SIGINT): `kill <pid>`, Ctrl-C, a batch system
        if fault is not None:
            cmd += ["-f", "%d:%d" % fault]
        cmd += ["--", self.proj.dud_bin] + args
        p = subprocess.run(cmd, cwd=self.proj.cwd, env=self.proj.env, stdout=subprocess.PIPE, stderr=subprocess.PIPE, stdin=subprocess.DEVNULL,
                           timeout=timeout)
        raw = open(log, errors="replace").read().splitlines() if os.path.exists(log) else []
        if os.path.exists(log):
            os.unlink(log)
        return p.returncode, raw, p.stderr

    def snapshot(self):
        return self.proj.snapshot(self.b3)

    # ---- canonical form of a raw trace
    def canon(self, raw):
        root = os.path.realpath(self.proj.root)
        cache = os.path.realpath(self.proj.cache) if os.path.exists(self.proj.cache) else self.proj.cache
        xdg = os.path.realpath(self.proj.xdg)
        stage_paths = set(os.fsdecode(sp) for sp in self.proj.stage_paths)
        temps = {}
        out = []
        outside = []

        def cls(p):
            if not p:
                return "?"
            if not p.startswith("/"):
                p = os.path.normpath(os.path.join(root, p))
            else:
                p = os.path.normpath(p)
            if p == cache:
                return "C"
            if p.startswith(cache + "/"):
                rel = p[len(cache) + 1:]
                parts = rel.split("/")
                if len(parts) == 2 and len(parts[0]) == 2:
                    return "O:" + parts[0] + parts[1]
                if len(parts) == 1 and len(parts[0]) == 2 and not parts[0].isdigit():
                    return "H:" + parts[0]
                if len(parts) == 1:
                    if len(parts[0]) == 2 and os.path.isdir(p):
                        return "H:" + parts[0]
                    return temps.setdefault(p, "T%d" % (len(temps) + 1))
                return "C?:" + rel
            if p == root or p.startswith(root + "/"):
                rel = p[len(root) + 1:]
                if rel == ".dud/lock":
                    return "L"
                if rel == ".dud/index":
                    return "I"
                if rel.startswith(".dud/index") :
                    return temps.setdefault(p, "T%d" % (len(temps) + 1))       # temp next to the index
                if rel in stage_paths:
                    return "S:" + hx(rel.encode())
                if rel.startswith(".dud/"):
                    return "D:" + rel
                base = os.path.basename(rel)
                if base.isdigit() and ("/" not in rel):
                    return temps.setdefault(p, "T%d" % (len(temps) + 1))       # CreateTemp(workspaceDir, "")
                for sp in stage_paths:
                    if os.path.dirname(rel) == os.path.dirname(sp) and base.startswith(os.path.basename(sp)) and base != os.path.basename(sp):
                        return temps.setdefault(p, "T%d" % (len(temps) + 1))   # temp next to a stage file
                if rel.startswith(".dud"):
                    return "D:" + rel
                return "W:" + hx(os.fsencode(rel))
            if p.startswith(xdg + "/") or p == xdg:
                return "X"
            outside.append(p)
            return "OUT:" + p
        last_write = None
        self.by_k = {}
        for line in raw:
            f = line.split("\t")
            if len(f) < 3 or not f[0].isdigit():
                continue
            name, p1, p2 = f[1], f[2], f[3] if len(f) > 3 else ""
            try:
                self.by_k[int(f[0])] = "%s %s" % (name, cls(p1) if name != "symlink" else cls(p2))
            except Exception:
                pass
            if name == "write":
                c = cls(p1)
                if c == "X" or last_write == c:
                    continue
                last_write = c
                out.append("write " + c)
                continue
            last_write = None
            if name == "rmdir" and out and out[-1] == "unlink " + cls(p1):
                continue            # os.Remove: unlink failed, Go falls back to rmdir on the same path
            if name in ("create_excl", "create_trunc", "open_w", "unlink", "rmdir", "mkdir", "ftruncate"):
                c = cls(p1)
                if c == "X":
                    continue
                if name == "create_trunc" and re.fullmatch(r"T\d+", c):
                    name = "create_excl"        # how a private temp file is created is immaterial
                out.append("%s %s" % (name, c))
            elif name == "rename" or name == "link":
                out.append("%s %s %s" % (name, cls(p1), cls(p2)))
            elif name == "chmod":
                out.append("chmod %s %s" % (cls(p1), p2))
            elif name == "symlink":
                # p1 is the (relative) target, p2 the link path
                lp = p2 if p2.startswith("/") else os.path.join(root, p2)
                tgt = p1 if p1.startswith("/") else os.path.normpath(os.path.join(os.path.dirname(lp), p1))
                out.append("symlink %s %s" % (cls(tgt), cls(p2)))
        return out, outside


def renumber(lines):
    """rename temp names (model: T:c0.1 …, real: T1 …) by order of first appearance"""
    m = {}
    out = []
    for l in lines:
        toks = l.split(" ")
        for i, t in enumerate(toks):
            if re.fullmatch(r"T\d+|T:[a-z0-9.:]+", t):
                toks[i] = m.setdefault(t, "TMP%d" % (len(m) + 1))
        out.append(" ".join(toks))
    return out


def sibling_canon(lines):
    """Checkout hands the entries of a manifest to its workers in Go map-iteration order, which is random: the order of SIBLINGS in
    a checkout trace is immaterial.  Within every maximal run of lines that touch workspace paths, the lines are stably sorted by
    (first appearance of the top path component, remaining components): a directory's own calls stay before its descendants',
    the calls on one path keep their order, artifacts keep theirs; only siblings are re-ordered — in both traces alike."""
    out, run, rank = [], [], {}

    def wpath(l):
        ws = [t for t in l.split(" ") if t.startswith("W:")]
        return bytes.fromhex(ws[-1][2:]).split(b"/") if ws else None

    def flush():
        run.sort(key=lambda e: e[0])
        out.extend(l for _, l in run)
        del run[:]
    for l in lines:
        w = wpath(l)
        if w is None:
            flush()
            out.append(l)
        else:
            r = rank.setdefault(w[0], len(rank))
            run.append(((r, tuple(w[1:])), l))
    flush()
    return out


def listing_orders(proj):
    """`op order` lines: the real readdir order of every directory of the workspace"""
    rootb = os.fsencode(proj.root)
    lines = []
    for dp, dn, fn in os.walk(rootb):
        if dp == rootb and b".dud" in dn:
            dn.remove(b".dud")
        names = [e.name for e in os.scandir(dp)]
        rel = os.path.relpath(dp, rootb)
        if rel == b".":
            continue
        lines.append("op order %s %s" % (hx(rel), " ".join(hx(n) for n in names)))
    return lines


def model_trace(driver, case, top, orders=()):
    """expected canonical trace of the traced command from the Lean model"""
    text = s1.case_text(dict(case, ops=case["ops"]))
    text = text.replace("end\n", "".join(o + "\n" for o in orders) + "top %s\nend\n" % top)
    rc, so, se = vlib.run([driver, "sim"], inp=text.encode(), timeout=600)
    lines = so.decode().splitlines()
    if "trace ok" not in lines:
        return None
    i = lines.index("trace ok")
    j = lines.index("endtrace")
    return lines[i + 1:j]


def tracked_contents(snap):
    """{workspace path: content digest} of regular files and of links into the cache"""
    import s1eval
    ws, cache = s1eval.parse_snap(snap)
    out = {}
    for p, v in ws.items():
        if v[0] == "f":
            out[p] = v[1]
        elif v[0] == "lo" and v[1] in cache:
            out[p] = cache[v[1]]
    return out


def crash_oracle(before, after, stage_old, stage_new, meta_old, meta_new, under=None):
    """C03 on one post-kill / post-fault tree"""
    import s1eval
    v = []
    ws, cache = s1eval.parse_snap(after)
    for p, dg in tracked_contents(before).items():
        if under is not None and not any(p == a or p.startswith(a + b"/") for a in under):
            continue
        cur = ws.get(p)
        ok = False
        if cur is not None and cur[0] == "f" and cur[1] == dg:
            ok = True
        elif cur is not None and cur[0] == "lo" and cache.get(cur[1]) == dg:
            ok = True
        elif any(name == dg and cd == dg for name, cd in cache.items()):
            ok = True
        if not ok:
            v.append(("lost", "the bytes of %r (digest %s) are neither at their path nor in the cache under their digest (entry now: %s)" % (p, dg[:12], cur)))
    for name, cd, mode in after["cache"]:
        if name != cd:
            v.append(("torn-object", "object %s holds bytes hashing to %s" % (name[:16], cd[:16])))
    for sp, doc in after["stages"].items():
        raw = doc[0] if doc else None
        if raw is None:
            try:
                raw = open(os.path.join(after.get("root", ""), os.fsdecode(sp)), "rb").read()
            except Exception:
                raw = b"<unreadable>"
        if raw not in (stage_old.get(sp), stage_new.get(sp)):
            v.append(("torn-stage-file", "stage file %s is neither its previous nor its new version (%d bytes)" % (sp.decode(), len(raw))))
    if meta_old is not None:
        for name in ("index",):
            if after["meta"].get(name) not in (meta_old.get(name), meta_new.get(name)):
                v.append(("torn-index", ".dud/%s is neither its previous nor its new version" % name))
    return v
