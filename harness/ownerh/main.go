// ownerh: drives the real Stage.Validate / Index.AddStage / index.FromFile on scenarios read from
// stdin (one per line) and prints one verdict line per scenario.
//
//	scenario := stage ("|" stage)*        stages in insertion order
//	stage    := hexStagePath (" " ("o"|"i") ":" hexPath ":" flags)*   flags ⊆ {d,r,s} or "-"
//
// output: for each scenario  "v=<k>|ok a=<k>:<class>|ok r=ok|err|na"
package main

import (
	"bufio"
	"encoding/hex"
	"fmt"
	"os"
	"path/filepath"
	"sort"
	"strings"

	"github.com/kevin-hanselman/dud/src/artifact"
	"github.com/kevin-hanselman/dud/src/index"
	"github.com/kevin-hanselman/dud/src/stage"
)

func unhex(s string) string {
	if s == "-" {
		return ""
	}
	b, err := hex.DecodeString(s)
	if err != nil {
		panic(err)
	}
	return string(b)
}

type stg struct {
	path string
	s    stage.Stage
}

func parse(line string) []stg {
	var out []stg
	for _, part := range strings.Split(line, "|") {
		toks := strings.Fields(part)
		if len(toks) == 0 {
			continue
		}
		st := stg{path: unhex(toks[0])}
		st.s.Inputs = map[string]*artifact.Artifact{}
		st.s.Outputs = map[string]*artifact.Artifact{}
		st.s.WorkingDir = "."
		for _, t := range toks[1:] {
			f := strings.Split(t, ":")
			a := &artifact.Artifact{Path: unhex(f[1]), IsDir: strings.Contains(f[2], "d"), DisableRecursion: strings.Contains(f[2], "r"),
				SkipCache: strings.Contains(f[2], "s")}
			if f[0] == "o" {
				st.s.Outputs[a.Path] = a
			} else {
				a.SkipCache = true
				st.s.Inputs[a.Path] = a
			}
		}
		out = append(out, st)
	}
	return out
}

func class(err error) string {
	if err == nil {
		return "ok"
	}
	m := err.Error()
	switch {
	case strings.Contains(m, "already owned by"), strings.Contains(m, "would own artifact"):
		return "owned"
	case strings.Contains(m, "already in index"):
		return "invalid"
	default:
		return "invalid"
	}
}

func main() {
	tmp, err := os.MkdirTemp("", "ownerh")
	if err != nil {
		panic(err)
	}
	defer os.RemoveAll(tmp)
	if err := os.Chdir(tmp); err != nil {
		panic(err)
	}
	in := bufio.NewScanner(os.Stdin)
	in.Buffer(make([]byte, 1<<20), 1<<24)
	w := bufio.NewWriter(os.Stdout)
	defer w.Flush()
	n := 0
	for in.Scan() {
		line := strings.TrimSpace(in.Text())
		if line == "" {
			continue
		}
		n++
		stages := parse(line)
		idx := make(index.Index)
		v, a := "ok", "ok"
		accepted := true
		for k, st := range stages {
			if err := st.s.Validate(st.path); err != nil {
				v = fmt.Sprintf("%d", k)
				accepted = false
				break
			}
			if err := idx.AddStage(st.s, st.path); err != nil {
				a = fmt.Sprintf("%d:%s", k, class(err))
				accepted = false
				break
			}
		}
		r := "na"
		if accepted {
			// what `dud stage add` leaves on disk, and what the next command does with it
			dir := filepath.Join(tmp, fmt.Sprintf("s%d", n))
			os.MkdirAll(dir, 0o755)
			os.Chdir(dir)
			paths := []string{}
			for _, st := range stages {
				os.MkdirAll(filepath.Dir(st.path), 0o755)
				cp := st.s // ToFile mutates the artifacts (paths blanked): work on copies
				cp.Inputs = map[string]*artifact.Artifact{}
				cp.Outputs = map[string]*artifact.Artifact{}
				for k, x := range st.s.Inputs {
					y := *x
					cp.Inputs[k] = &y
				}
				for k, x := range st.s.Outputs {
					y := *x
					cp.Outputs[k] = &y
				}
				if err := cp.ToFile(st.path); err != nil {
					r = "err-write"
				}
				paths = append(paths, st.path)
			}
			sort.Strings(paths)
			if err := idx.ToFile("index"); err != nil {
				r = "err-write"
			}
			if r == "na" {
				if _, err := index.FromFile("index"); err != nil {
					r = "err"
				} else {
					r = "ok"
				}
			}
			os.Chdir(tmp)
			os.RemoveAll(dir)
		}
		fmt.Fprintf(w, "v=%s a=%s r=%s\n", v, a, r)
	}
}
