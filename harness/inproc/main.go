// inproc: drives exported dud functions in-process on line-oriented scenarios.
//
//	inproc sum     lines: "seq" | "<bufsize> <hexdata> <len,len,...> [err]"  -> hex digest or "ERR"
//	inproc batch   lines as for sum (no err), all hashed concurrently on the shared pools -> digests in input order
//	inproc stage   lines: stage spec -> reloaded normal form + definition checksum
//	inproc path    lines: "clean\t<hex>" | "dir\t<hex>" | "join\t<hex>\t<hex>" | "rel\t<hex>\t<hex>" | "absrel\t<hexbase>\t<hexpath>" | "rebase\t<hexroot>\t<hexcwd>\t<hexarg>"
//	inproc pool    lines: "<op> <shared> <dedicated> <dir>"   goroutine accounting around Commit/Checkout/Status
package main

import (
	"bufio"
	"encoding/hex"
	"encoding/json"
	"errors"
	"fmt"
	"io"
	"os"
	"path/filepath"
	"runtime"
	"sort"
	"strconv"
	"strings"
	"sync"
	"syscall"
	"time"

	"github.com/kevin-hanselman/dud/src/agglog"
	"github.com/kevin-hanselman/dud/src/artifact"
	"github.com/kevin-hanselman/dud/src/cache"
	"github.com/kevin-hanselman/dud/src/checksum"
	"github.com/kevin-hanselman/dud/src/cmd"
	"github.com/kevin-hanselman/dud/src/fsutil"
	"github.com/kevin-hanselman/dud/src/stage"
	"github.com/kevin-hanselman/dud/src/strategy"
	"log"
)

func unhex(s string) []byte {
	if s == "-" || s == "" {
		return nil
	}
	b, err := hex.DecodeString(s)
	if err != nil {
		panic(err)
	}
	return b
}

func hx(b []byte) string {
	if len(b) == 0 {
		return "-"
	}
	return hex.EncodeToString(b)
}

// scripted reader: returns the data in the given chunk sizes (0 = an empty read with nil error),
// then io.EOF, or a failure after the scripted chunks.
type scripted struct {
	data   []byte
	chunks []int
	fail   bool
	i      int
	temp   string // "eagain" / "eintr" / "patheagain": ONE temporary error after the scripted chunks, then the rest of the data
	fired  bool
}

func (s *scripted) Read(p []byte) (int, error) {
	if s.i >= len(s.chunks) {
		if s.temp != "" && !s.fired {
			s.fired = true
			switch s.temp {
			case "eintr":
				return 0, syscall.EINTR
			case "patheagain":
				return 0, &os.PathError{Op: "read", Path: "/dev/stdin", Err: syscall.EAGAIN}
			default:
				return 0, syscall.EAGAIN
			}
		}
		if s.fail {
			return 0, errors.New("scripted failure")
		}
		if len(s.data) > 0 { // whatever the script did not cover
			n := copy(p, s.data)
			s.data = s.data[n:]
			return n, nil
		}
		return 0, io.EOF
	}
	n := s.chunks[s.i]
	if n > len(p) {
		n = len(p)
		s.chunks[s.i] -= n
	} else {
		s.i++
	}
	if n > len(s.data) {
		n = len(s.data)
	}
	copy(p, s.data[:n])
	s.data = s.data[n:]
	return n, nil
}

func parseSum(line string) (int, *scripted) {
	f := strings.Fields(line)
	buf, _ := strconv.Atoi(f[0])
	var data []byte
	if !strings.HasPrefix(f[1], "g:") {
		data = unhex(f[1])
	} else { // generated: g:<seed>:<len>
		p := strings.Split(f[1], ":")
		seed, _ := strconv.Atoi(p[1])
		n, _ := strconv.Atoi(p[2])
		data = make([]byte, n)
		for i := range data {
			j := i % 257
			data[i] = byte((seed + j*j*7 + j + (i/257)*3) % 256)
		}
	}
	var chunks []int
	if len(f) > 2 && f[2] != "-" {
		for _, c := range strings.Split(f[2], ",") {
			n, _ := strconv.Atoi(c)
			chunks = append(chunks, n)
		}
	}
	sc := &scripted{data: data, chunks: chunks, fail: len(f) > 3 && f[3] == "err"}
	if len(f) > 3 && (f[3] == "eagain" || f[3] == "eintr" || f[3] == "patheagain") {
		sc.temp = f[3]
	}
	return buf, sc
}

func doSum(buf int, r io.Reader) string {
	var s string
	var err error
	if buf <= 0 {
		s, err = checksum.Checksum(r)
	} else {
		s, err = checksum.ChecksumBuffer(r, make([]byte, buf))
	}
	if err != nil {
		return "ERR"
	}
	return s
}

func modeSum(in *bufio.Scanner, w *bufio.Writer) {
	for in.Scan() {
		line := strings.TrimSpace(in.Text())
		if line == "" {
			continue
		}
		buf, r := parseSum(line)
		fmt.Fprintln(w, doSum(buf, r))
	}
}

func modeBatch(in *bufio.Scanner, w *bufio.Writer) {
	var lines []string
	for in.Scan() {
		if l := strings.TrimSpace(in.Text()); l != "" {
			lines = append(lines, l)
		}
	}
	out := make([]string, len(lines))
	var wg sync.WaitGroup
	sem := make(chan struct{}, 16)
	for i, l := range lines {
		wg.Add(1)
		go func(i int, l string) {
			defer wg.Done()
			sem <- struct{}{}
			defer func() { <-sem }()
			buf, r := parseSum(l)
			out[i] = doSum(buf, r)
		}(i, l)
	}
	wg.Wait()
	for _, o := range out {
		fmt.Fprintln(w, o)
	}
}

// stage line: cmd=<hex> wd=<hex> sum=<hex|-> (i|o):<hexpath>:<flags>:<hexsum>...
func modeStage(in *bufio.Scanner, w *bufio.Writer) {
	tmp, _ := os.MkdirTemp("", "stageh")
	defer os.RemoveAll(tmp)
	os.Chdir(tmp)
	n := 0
	for in.Scan() {
		line := strings.TrimSpace(in.Text())
		if line == "" {
			continue
		}
		n++
		stg := stage.Stage{Inputs: map[string]*artifact.Artifact{}, Outputs: map[string]*artifact.Artifact{}}
		for _, t := range strings.Fields(line) {
			switch {
			case strings.HasPrefix(t, "cmd="):
				stg.Command = string(unhex(t[4:]))
			case strings.HasPrefix(t, "wd="):
				stg.WorkingDir = string(unhex(t[3:]))
			case strings.HasPrefix(t, "sum="):
				stg.Checksum = string(unhex(t[4:]))
			default:
				f := strings.Split(t, ":")
				a := &artifact.Artifact{Path: string(unhex(f[1])), IsDir: strings.Contains(f[2], "d"),
					DisableRecursion: strings.Contains(f[2], "r"), SkipCache: strings.Contains(f[2], "s"), Checksum: string(unhex(f[3]))}
				if f[0] == "i" {
					a.SkipCache = true
					stg.Inputs[a.Path] = a
				} else {
					stg.Outputs[a.Path] = a
				}
			}
		}
		sum0, err0 := stg.CalculateChecksum()
		name := fmt.Sprintf("s%d.yaml", n)
		if err := stg.ToFile(name); err != nil {
			fmt.Fprintf(w, "write-error %s\n", hx([]byte(err.Error())))
			continue
		}
		got, err := stage.FromFile(name)
		os.Remove(name)
		if err != nil {
			fmt.Fprintf(w, "load-error def=%s %s\n", sum0, hx([]byte(err.Error())))
			continue
		}
		sum1, _ := got.CalculateChecksum()
		var parts []string
		parts = append(parts, "cmd="+hx([]byte(got.Command)), "wd="+hx([]byte(got.WorkingDir)), "sum="+hx([]byte(got.Checksum)))
		emit := func(tag string, m map[string]*artifact.Artifact) {
			keys := make([]string, 0, len(m))
			for k := range m {
				keys = append(keys, k)
			}
			sort.Strings(keys)
			for _, k := range keys {
				a := m[k]
				fl := ""
				if a.IsDir {
					fl += "d"
				}
				if a.DisableRecursion {
					fl += "r"
				}
				if a.SkipCache {
					fl += "s"
				}
				if fl == "" {
					fl = "-"
				}
				parts = append(parts, fmt.Sprintf("%s:%s:%s:%s:%s", tag, hx([]byte(k)), fl, hx([]byte(a.Checksum)), hx([]byte(a.Path))))
			}
		}
		emit("i", got.Inputs)
		emit("o", got.Outputs)
		_ = err0
		fmt.Fprintf(w, "ok def0=%s def1=%s %s\n", sum0, sum1, strings.Join(parts, " "))
	}
}

func modePath(in *bufio.Scanner, w *bufio.Writer) {
	for in.Scan() {
		f := strings.Split(strings.TrimRight(in.Text(), "\n"), "\t")
		switch f[0] {
		case "clean":
			fmt.Fprintln(w, hx([]byte(filepath.Clean(string(unhex(f[1]))))))
		case "dir":
			fmt.Fprintln(w, hx([]byte(filepath.Dir(string(unhex(f[1]))))))
		case "join":
			fmt.Fprintln(w, hx([]byte(filepath.Join(string(unhex(f[1])), string(unhex(f[2]))))))
		case "rel":
			r, err := filepath.Rel(string(unhex(f[1])), string(unhex(f[2])))
			if err != nil {
				fmt.Fprintln(w, "ERR")
			} else {
				fmt.Fprintln(w, hx([]byte(r)))
			}
		case "absrel": // pathAbsThenRel(base, path) for an absolute path (cwd independent)
			r, err := cmd.PathAbsThenRel(string(unhex(f[1])), string(unhex(f[2])))
			if err != nil {
				fmt.Fprintln(w, "ERR")
			} else {
				fmt.Fprintln(w, hx([]byte(r)))
			}
		case "rebase": // pathAbsThenRel(root, arg) called from the working directory cwd (spelt as in $PWD)
			root, cwd, arg := string(unhex(f[1])), string(unhex(f[2])), string(unhex(f[3]))
			if err := os.MkdirAll(filepath.Clean(cwd), 0o755); err != nil {
				fmt.Fprintln(w, "harness-error")
				continue
			}
			if err := os.Chdir(filepath.Clean(cwd)); err != nil {
				fmt.Fprintln(w, "harness-error")
				continue
			}
			os.Setenv("PWD", cwd)
			r, err := cmd.PathAbsThenRel(root, arg)
			if err != nil {
				fmt.Fprintln(w, "ERR")
			} else {
				fmt.Fprintln(w, hx([]byte(r)))
			}
		default:
			fmt.Fprintln(w, "bad-op")
		}
	}
}

// pool line: <commit|checkout|status> <link|copy> <shared> <dedicated> <workdir> <cachedir> <artifactpath> <checksum|->
// prints: rc=<ok|err:...> sum=<checksum> goroutines=<before>/<after> ms=<elapsed> [hang]
func modePool(in *bufio.Scanner, w *bufio.Writer) {
	logger := &agglog.AggLogger{Error: log.New(io.Discard, "", 0), Info: log.New(io.Discard, "", 0), Debug: log.New(io.Discard, "", 0)}
	last := map[string]string{} // cache directory -> checksum recorded by the last successful commit there
	for in.Scan() {
		f := strings.Fields(in.Text())
		// harness-side edits between calls (no dud code involved): answered with one line each
		if len(f) >= 2 && (f[0] == "fswrite" || f[0] == "fsrm" || f[0] == "breaksubman") {
			switch f[0] {
			case "fswrite": // fswrite <path> <text>: replace the entry by a regular file holding <text>
				os.Remove(f[1])
				os.WriteFile(f[1], []byte(strings.Join(f[2:], " ")), 0o644)
			case "fsrm":
				os.RemoveAll(f[1])
			case "breaksubman": // breaksubman <cachedir>: truncate the manifest object of the first sub-directory of the last commit
				sum := last[f[1]]
				broke := false
				if len(sum) > 2 {
					raw, err := os.ReadFile(filepath.Join(f[1], sum[:2], sum[2:]))
					if err == nil {
						var man struct {
							Contents map[string]struct {
								Checksum string `json:"checksum"`
								IsDir    bool   `json:"is-dir"`
							} `json:"contents"`
						}
						if json.Unmarshal(raw, &man) == nil {
							keys := []string{}
							for k := range man.Contents {
								keys = append(keys, k)
							}
							sort.Strings(keys)
							for _, k := range keys {
								c := man.Contents[k]
								if c.IsDir && len(c.Checksum) > 2 {
									obj := filepath.Join(f[1], c.Checksum[:2], c.Checksum[2:])
									os.Chmod(obj, 0o644)
									os.WriteFile(obj, []byte("{\"path\":"), 0o644)
									broke = true
									break
								}
							}
						}
					}
				}
				if !broke {
					fmt.Fprintln(w, "edit=none goroutines=0/0")
					w.Flush()
					continue
				}
			}
			fmt.Fprintln(w, "edit=ok goroutines=0/0")
			w.Flush()
			continue
		}
		if len(f) < 8 {
			continue
		}
		shared, _ := strconv.Atoi(f[2])
		ded, _ := strconv.Atoi(f[3])
		cache.SetWorkerLimits(shared, ded)
		ch, err := cache.NewLocalCache(f[5])
		if err != nil {
			fmt.Fprintln(w, "rc=err:newcache")
			continue
		}
		strat := strategy.LinkStrategy
		if f[1] == "copy" {
			strat = strategy.CopyStrategy
		}
		art := artifact.Artifact{Path: f[6], IsDir: true}
		if f[7] == "=" {
			art.Checksum = last[f[5]] // what the last successful commit into this cache recorded
		} else if f[7] != "-" {
			art.Checksum = f[7]
		}
		runtime.GC()
		before := runtime.NumGoroutine()
		done := make(chan string, 1)
		start := time.Now()
		go func() {
			var err error
			extra := ""
			switch f[0] {
			case "commit":
				err = ch.Commit(f[4], &art, strat, logger)
				if err == nil {
					last[f[5]] = art.Checksum
				}
			case "checkout":
				err = ch.Checkout(f[4], art, strat, nil)
			case "status":
				st, e := ch.Status(f[4], art, false)
				err = e
				extra = fmt.Sprintf(" cm=%v", st.ContentsMatch)
			case "statusshort":
				st, e := ch.Status(f[4], art, true)
				err = e
				extra = fmt.Sprintf(" cm=%v", st.ContentsMatch)
			}
			if err != nil {
				done <- "rc=err" + extra
			} else {
				done <- "rc=ok" + extra
			}
		}()
		var res string
		hang := ""
		select {
		case res = <-done:
		case <-time.After(20 * time.Second):
			res = "rc=hang"
			hang = " hang"
			buf := make([]byte, 1<<16)
			n := runtime.Stack(buf, true)
			os.Stderr.Write(buf[:n])
		}
		// give exiting goroutines a moment
		after := runtime.NumGoroutine()
		for i := 0; i < 50 && after > before; i++ {
			time.Sleep(2 * time.Millisecond)
			after = runtime.NumGoroutine()
		}
		fmt.Fprintf(w, "%s sum=%s goroutines=%d/%d ms=%d%s\n", res, art.Checksum, before, after, time.Since(start).Milliseconds(), hang)
		w.Flush()
		if hang != "" {
			w.Flush()
			os.Exit(3)
		}
	}
}

// same line: <lenA> <lenB> <seed> <flipOffset|-1>  -> "1" / "0" / "ERR"
func modeSame(in *bufio.Scanner, w *bufio.Writer) {
	tmp, _ := os.MkdirTemp("", "sameh")
	defer os.RemoveAll(tmp)
	genb := func(seed, n int) []byte {
		data := make([]byte, n)
		for i := range data {
			j := i % 257
			data[i] = byte((seed + j*j*7 + j + (i/257)*3) % 256)
		}
		return data
	}
	for in.Scan() {
		f := strings.Fields(in.Text())
		if len(f) < 4 {
			continue
		}
		la, _ := strconv.Atoi(f[0])
		lb, _ := strconv.Atoi(f[1])
		seed, _ := strconv.Atoi(f[2])
		flip, _ := strconv.Atoi(f[3])
		a := genb(seed, la)
		b := genb(seed, lb)
		if flip >= 0 && flip < lb {
			b[flip] ^= 0xFF
		}
		pa, pb := filepath.Join(tmp, "a"), filepath.Join(tmp, "b")
		os.WriteFile(pa, a, 0o644)
		os.WriteFile(pb, b, 0o644)
		same, err := fsutil.SameContents(pa, pb)
		if err != nil {
			fmt.Fprintln(w, "ERR")
		} else if same {
			fmt.Fprintln(w, "1")
		} else {
			fmt.Fprintln(w, "0")
		}
	}
}

func main() {
	in := bufio.NewScanner(os.Stdin)
	in.Buffer(make([]byte, 1<<20), 1<<26)
	w := bufio.NewWriter(os.Stdout)
	defer w.Flush()
	switch os.Args[1] {
	case "sum":
		modeSum(in, w)
	case "batch":
		modeBatch(in, w)
	case "stage":
		modeStage(in, w)
	case "path":
		modePath(in, w)
	case "pool":
		modePool(in, w)
	case "same":
		modeSame(in, w)
	default:
		fmt.Fprintln(os.Stderr, "unknown mode")
		os.Exit(2)
	}
}
