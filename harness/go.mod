module verifharness

go 1.20

require github.com/kevin-hanselman/dud v0.0.0

require (
	github.com/VividCortex/ewma v1.2.0 // indirect
	github.com/awalterschulze/gographviz v2.0.3+incompatible // indirect
	github.com/c2h5oh/datasize v0.0.0-20231215233829-aa82cc1e6500 // indirect
	github.com/cheggaaa/pb/v3 v3.1.5 // indirect
	github.com/cpuguy83/go-md2man/v2 v2.0.4 // indirect
	github.com/fatih/color v1.17.0 // indirect
	github.com/felixge/fgprof v0.9.3 // indirect
	github.com/fsnotify/fsnotify v1.7.0 // indirect
	github.com/google/pprof v0.0.0-20240625030939-27f56978b8b0 // indirect
	github.com/hashicorp/hcl v1.0.0 // indirect
	github.com/klauspost/cpuid/v2 v2.2.8 // indirect
	github.com/magiconair/properties v1.8.7 // indirect
	github.com/mattn/go-colorable v0.1.13 // indirect
	github.com/mattn/go-isatty v0.0.20 // indirect
	github.com/mattn/go-runewidth v0.0.15 // indirect
	github.com/mitchellh/go-homedir v1.1.0 // indirect
	github.com/mitchellh/mapstructure v1.5.0 // indirect
	github.com/pelletier/go-toml/v2 v2.2.2 // indirect
	github.com/pkg/errors v0.9.1 // indirect
	github.com/rivo/uniseg v0.4.7 // indirect
	github.com/russross/blackfriday/v2 v2.1.0 // indirect
	github.com/sagikazarmark/slog-shim v0.1.0 // indirect
	github.com/spf13/afero v1.11.0 // indirect
	github.com/spf13/cast v1.6.0 // indirect
	github.com/spf13/cobra v1.8.1 // indirect
	github.com/spf13/pflag v1.0.5 // indirect
	github.com/spf13/viper v1.19.0 // indirect
	github.com/subosito/gotenv v1.6.0 // indirect
	github.com/zeebo/blake3 v0.2.4 // indirect
	golang.org/x/sync v0.8.0 // indirect
	golang.org/x/sys v0.21.0 // indirect
	golang.org/x/text v0.16.0 // indirect
	gopkg.in/ini.v1 v1.67.0 // indirect
	gopkg.in/yaml.v2 v2.4.0 // indirect
	gopkg.in/yaml.v3 v3.0.1 // indirect
)

replace github.com/kevin-hanselman/dud => /repo
