module verifharness

go 1.20

require github.com/kevin-hanselman/dud v0.0.0

require (
	github.com/VividCortex/ewma v1.2.0 // indirect
	github.com/awalterschulze/gographviz v2.0.3+incompatible // indirect
	github.com/c2h5oh/datasize v0.0.0-20231215233829-aa82cc1e6500 // indirect
	github.com/cheggaaa/pb/v3 v3.1.5 // indirect
	github.com/fatih/color v1.17.0 // indirect
	github.com/klauspost/cpuid/v2 v2.2.8 // indirect
	github.com/mattn/go-colorable v0.1.13 // indirect
	github.com/mattn/go-isatty v0.0.20 // indirect
	github.com/mattn/go-runewidth v0.0.15 // indirect
	github.com/pkg/errors v0.9.1 // indirect
	github.com/rivo/uniseg v0.4.7 // indirect
	github.com/zeebo/blake3 v0.2.4 // indirect
	golang.org/x/sync v0.8.0 // indirect
	golang.org/x/sys v0.21.0 // indirect
	gopkg.in/yaml.v2 v2.4.0 // indirect
)

replace github.com/kevin-hanselman/dud => /repo
