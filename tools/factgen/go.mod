module factgen

go 1.20
