// Helpers that look THROUGH calls to functions of the same package, so that extracting a helper
// function (or inlining one) does not change a fact:
//
//   - callsDeep: the calls of a function in source order, with the calls of same-package callees
//     spliced in at the call site (depth-limited, cycles cut);
//   - derivation: a flow-insensitive "derives from" relation on the identifiers of a function
//     (x derives from every call and every identifier that occurs in an expression assigned to x),
//     carried through same-package calls by binding callee parameters to the caller's arguments.
//     Facts ask which SOURCES (named calls, parameters, the receiver) an argument derives from,
//     e.g. "the rename target derives from PathForChecksum applied to the result of
//     checksum.Checksum" — true of the code before and after any renaming, re-ordering of
//     independent statements, introduction of locals or extraction of helpers.
package main

import (
	"go/ast"
	"go/parser"
	"go/token"
	"os"
	"path/filepath"
	"sort"
	"strings"
)

// all functions and methods of the package in directory root/dir, by name (methods by method name)
var pkgCache = map[string]map[string]*ast.FuncDecl{}

func pkgFuncs(root, dir string) map[string]*ast.FuncDecl {
	key := filepath.Join(root, dir)
	if m, ok := pkgCache[key]; ok {
		return m
	}
	m := map[string]*ast.FuncDecl{}
	entries, _ := os.ReadDir(key)
	for _, e := range entries {
		n := e.Name()
		if !strings.HasSuffix(n, ".go") || strings.HasSuffix(n, "_test.go") {
			continue
		}
		f, err := parser.ParseFile(fset, filepath.Join(key, n), nil, parser.SkipObjectResolution)
		if err != nil {
			continue
		}
		// files guarded by a build tag other than the default build are skipped (hooks)
		skip := false
		for _, cg := range f.Comments {
			if cg.Pos() < f.Package && strings.Contains(cg.Text(), "+build verif") || strings.Contains(cg.Text(), "go:build verif") {
				skip = true
			}
		}
		if skip {
			continue
		}
		for _, d := range f.Decls {
			if fd, ok := d.(*ast.FuncDecl); ok && fd.Body != nil {
				m[fd.Name.Name] = fd
			}
		}
	}
	pkgCache[key] = m
	return m
}

// the same-package function a call refers to, if any: `f(...)` or `x.f(...)` with f declared in the package
func calleeOf(pkg map[string]*ast.FuncDecl, ce *ast.CallExpr) *ast.FuncDecl {
	switch fn := ce.Fun.(type) {
	case *ast.Ident:
		if fd, ok := pkg[fn.Name]; ok && fd.Recv == nil {
			return fd
		}
	case *ast.SelectorExpr:
		if fd, ok := pkg[fn.Sel.Name]; ok && fd.Recv != nil {
			return fd
		}
	}
	return nil
}

func callsDeep(pkg map[string]*ast.FuncDecl, fd *ast.FuncDecl, depth int, seen map[*ast.FuncDecl]bool) []string {
	var out []string
	if fd == nil || fd.Body == nil {
		return out
	}
	seen[fd] = true
	ast.Inspect(fd.Body, func(m ast.Node) bool {
		if ce, ok := m.(*ast.CallExpr); ok {
			callee := calleeOf(pkg, ce)
			if callee != nil && depth > 0 && !seen[callee] {
				// the helper's own calls stand for the call
				out = append(out, callsDeep(pkg, callee, depth-1, seen)...)
			} else {
				out = append(out, src(ce.Fun))
			}
		}
		return true
	})
	delete(seen, fd)
	return out
}

// ---- derivation

type deriv struct {
	pkg  map[string]*ast.FuncDecl
	fd   *ast.FuncDecl
	from map[string]map[string]bool // identifier -> sources
}

func paramNames(fd *ast.FuncDecl) []string {
	var out []string
	for _, f := range fd.Type.Params.List {
		if len(f.Names) == 0 {
			out = append(out, "_")
		}
		for _, id := range f.Names {
			out = append(out, id.Name)
		}
	}
	return out
}

func recvName(fd *ast.FuncDecl) string {
	if fd.Recv != nil {
		for _, f := range fd.Recv.List {
			for _, id := range f.Names {
				return id.Name
			}
		}
	}
	return ""
}

// sources of an expression: named calls occurring in it (package-qualified or method names), and
// the sources of the identifiers occurring in it
func (d *deriv) exprSources(e ast.Node) map[string]bool {
	out := map[string]bool{}
	if e == nil {
		return out
	}
	ast.Inspect(e, func(m ast.Node) bool {
		switch x := m.(type) {
		case *ast.CallExpr:
			name := src(x.Fun)
			if se, ok := x.Fun.(*ast.SelectorExpr); ok {
				if id, ok := se.X.(*ast.Ident); ok && (d.from[id.Name] != nil) {
					name = se.Sel.Name // a method of a local / receiver: by method name
				}
			}
			out["call:"+name] = true
		case *ast.SelectorExpr:
			// a field of something: the field name is recorded, the base is walked by Inspect
			out["field:"+x.Sel.Name] = true
		case *ast.Ident:
			for s := range d.from[x.Name] {
				out[s] = true
			}
		}
		return true
	})
	return out
}

func newDeriv(pkg map[string]*ast.FuncDecl, fd *ast.FuncDecl, bind map[string]map[string]bool) *deriv {
	d := &deriv{pkg: pkg, fd: fd, from: map[string]map[string]bool{}}
	add := func(id string, s map[string]bool) bool {
		if id == "" || id == "_" {
			return false
		}
		if d.from[id] == nil {
			d.from[id] = map[string]bool{}
		}
		ch := false
		for k := range s {
			if !d.from[id][k] {
				d.from[id][k] = true
				ch = true
			}
		}
		return ch
	}
	if r := recvName(fd); r != "" {
		add(r, map[string]bool{"$recv": true})
		if b, ok := bind["$recv"]; ok {
			add(r, b)
		}
	}
	for i, pn := range paramNames(fd) {
		if b, ok := bind[pn]; ok {
			add(pn, b)
		} else {
			add(pn, map[string]bool{"$param" + string(rune('0'+i)): true})
		}
	}
	for round := 0; round < 12; round++ {
		changed := false
		ast.Inspect(fd.Body, func(m ast.Node) bool {
			switch st := m.(type) {
			case *ast.AssignStmt:
				for k, l := range st.Lhs {
					id, ok := l.(*ast.Ident)
					if !ok {
						continue
					}
					var rhs ast.Expr
					if len(st.Rhs) == 1 {
						rhs = st.Rhs[0]
					} else if k < len(st.Rhs) {
						rhs = st.Rhs[k]
					}
					if add(id.Name, d.exprSources(rhs)) {
						changed = true
					}
				}
			case *ast.RangeStmt:
				s := d.exprSources(st.X)
				if id, ok := st.Key.(*ast.Ident); ok && add(id.Name, s) {
					changed = true
				}
				if id, ok := st.Value.(*ast.Ident); ok && add(id.Name, s) {
					changed = true
				}
			case *ast.ValueSpec:
				for k, id := range st.Names {
					if k < len(st.Values) && add(id.Name, d.exprSources(st.Values[k])) {
						changed = true
					}
				}
			}
			return true
		})
		if !changed {
			break
		}
	}
	return d
}

type deepHit struct {
	d    *deriv
	call *ast.CallExpr
	node ast.Node
}

// every node of fd and of its same-package callees (parameters bound to the sources of the
// caller's arguments) for which pick returns true
func findDeep(pkg map[string]*ast.FuncDecl, fd *ast.FuncDecl, bind map[string]map[string]bool, depth int,
	seen map[*ast.FuncDecl]bool, pick func(n ast.Node) bool) []deepHit {
	var out []deepHit
	if fd == nil || fd.Body == nil || seen[fd] {
		return out
	}
	seen[fd] = true
	d := newDeriv(pkg, fd, bind)
	ast.Inspect(fd.Body, func(m ast.Node) bool {
		if m == nil {
			return true
		}
		if pick(m) {
			ce, _ := m.(*ast.CallExpr)
			out = append(out, deepHit{d: d, call: ce, node: m})
		}
		if ce, ok := m.(*ast.CallExpr); ok && depth > 0 {
			if callee := calleeOf(pkg, ce); callee != nil && !seen[callee] {
				b := map[string]map[string]bool{}
				for i, pn := range paramNames(callee) {
					if i < len(ce.Args) {
						b[pn] = d.exprSources(ce.Args[i])
					}
				}
				if se, ok := ce.Fun.(*ast.SelectorExpr); ok {
					b["$recv"] = d.exprSources(se.X)
				}
				out = append(out, findDeep(pkg, callee, b, depth-1, seen, pick)...)
			}
		}
		return true
	})
	delete(seen, fd)
	return out
}

// the sources of e among `interesting` (suffix match on call names), sorted, comma separated
func sourcesAmong(d *deriv, e ast.Node, interesting []string) string {
	s := d.exprSources(e)
	var out []string
	for _, want := range interesting {
		for k := range s {
			if k == want || (strings.HasPrefix(want, "call:") && strings.HasPrefix(k, "call:") && strings.HasSuffix(k, strings.TrimPrefix(want, "call:"))) {
				out = append(out, want)
				break
			}
		}
	}
	sort.Strings(out)
	return strings.Join(out, ",")
}

var _ = token.NoPos
