// factgen re-reads the dud sources (go/parser only, no type checking) and prints
// DudModel/Generated/Facts.lean: the constants and code shapes the Lean model is
// parameterised by. A shape it does not recognise is emitted as an "unknown" value that
// fails the corresponding proof obligation; it never falls back to a default.
package main

import (
	"fmt"
	"go/ast"
	"go/parser"
	"go/printer"
	"go/token"
	"os"
	"path/filepath"
	"regexp"
	"sort"
	"strconv"
	"strings"
)

var fset = token.NewFileSet()

func parse(root, rel string) *ast.File {
	f, err := parser.ParseFile(fset, filepath.Join(root, rel), nil, parser.SkipObjectResolution)
	if err != nil {
		fmt.Fprintf(os.Stderr, "factgen: %v\n", err)
		os.Exit(2)
	}
	return f
}

func src(n ast.Node) string {
	var sb strings.Builder
	printer.Fprint(&sb, fset, n)
	return sb.String()
}

func funcDecl(f *ast.File, name string) *ast.FuncDecl {
	for _, d := range f.Decls {
		if fd, ok := d.(*ast.FuncDecl); ok && fd.Name.Name == name {
			return fd
		}
	}
	return nil
}

// funcLitVar finds `var name = func(...) {...}`
func funcLitVar(f *ast.File, name string) *ast.FuncLit {
	var out *ast.FuncLit
	ast.Inspect(f, func(n ast.Node) bool {
		if vs, ok := n.(*ast.ValueSpec); ok {
			for i, id := range vs.Names {
				if id.Name == name && i < len(vs.Values) {
					if fl, ok := vs.Values[i].(*ast.FuncLit); ok {
						out = fl
					}
				}
			}
		}
		return true
	})
	return out
}

func constOrVar(f *ast.File, name string) ast.Expr {
	var out ast.Expr
	ast.Inspect(f, func(n ast.Node) bool {
		if vs, ok := n.(*ast.ValueSpec); ok {
			for i, id := range vs.Names {
				if id.Name == name && i < len(vs.Values) {
					out = vs.Values[i]
				}
			}
		}
		return true
	})
	return out
}

func intLit(e ast.Expr) (int64, bool) {
	if bl, ok := e.(*ast.BasicLit); ok && bl.Kind == token.INT {
		v, err := strconv.ParseInt(bl.Value, 0, 64)
		return v, err == nil
	}
	return 0, false
}

func strLit(e ast.Expr) (string, bool) {
	if bl, ok := e.(*ast.BasicLit); ok && bl.Kind == token.STRING {
		v, err := strconv.Unquote(bl.Value)
		return v, err == nil
	}
	return "", false
}

// calls returns the dotted names of all calls in n, in source order.
func calls(n ast.Node) []string {
	var out []string
	ast.Inspect(n, func(m ast.Node) bool {
		if ce, ok := m.(*ast.CallExpr); ok {
			out = append(out, src(ce.Fun))
		}
		return true
	})
	return out
}

func flagSet(e ast.Expr) []string {
	var out []string
	var walk func(e ast.Expr)
	walk = func(e ast.Expr) {
		switch x := e.(type) {
		case *ast.BinaryExpr:
			if x.Op == token.OR {
				walk(x.X)
				walk(x.Y)
				return
			}
			out = append(out, "?"+src(e))
		case *ast.SelectorExpr:
			out = append(out, x.Sel.Name)
		case *ast.ParenExpr:
			walk(x.X)
		default:
			out = append(out, "?"+src(e))
		}
	}
	walk(e)
	sort.Strings(out)
	return out
}

// openFileFlags finds the os.OpenFile call in fn and returns its flag names and mode.
func openFileFlags(fn ast.Node) ([]string, int64, bool) {
	var flags []string
	var mode int64
	found := false
	ast.Inspect(fn, func(m ast.Node) bool {
		if ce, ok := m.(*ast.CallExpr); ok && src(ce.Fun) == "os.OpenFile" && len(ce.Args) == 3 {
			flags = flagSet(ce.Args[1])
			mode, _ = intLit(ce.Args[2])
			found = true
		}
		return true
	})
	return flags, mode, found
}

func leanStrList(xs []string) string {
	q := make([]string, len(xs))
	for i, x := range xs {
		q[i] = strconv.Quote(x)
	}
	return "[" + strings.Join(q, ", ") + "]"
}

// canon renders an expression of function fd with the names of its receiver, parameters and local variables replaced by
// role placeholders, so that facts about "which value goes where" survive a renaming: the receiver is $recv, the i-th
// parameter $param<i>, a local variable first defined from a call $local<callee> (callee rendered the same way), any other
// local $local. Package-level names, fields and methods are left alone.
func canon(fd *ast.FuncDecl, n ast.Node) string {
	names := map[string]string{}
	if fd.Recv != nil {
		for _, f := range fd.Recv.List {
			for _, id := range f.Names {
				names[id.Name] = "$recv"
			}
		}
	}
	i := 0
	for _, f := range fd.Type.Params.List {
		for _, id := range f.Names {
			names[id.Name] = fmt.Sprintf("$param%d", i)
			i++
		}
		if len(f.Names) == 0 {
			i++
		}
	}
	if fd.Type.Results != nil {
		for _, f := range fd.Type.Results.List {
			for _, id := range f.Names {
				if id.Name != "_" {
					names[id.Name] = "$result"
				}
			}
		}
	}
	render := func(x ast.Node) string {
		text := src(x)
		var out strings.Builder
		k := 0
		for k < len(text) {
			c := text[k]
			if c == '_' || (c >= 'a' && c <= 'z') || (c >= 'A' && c <= 'Z') {
				j := k
				for j < len(text) && (text[j] == '_' || (text[j] >= 'a' && text[j] <= 'z') || (text[j] >= 'A' && text[j] <= 'Z') || (text[j] >= '0' && text[j] <= '9')) {
					j++
				}
				word := text[k:j]
				prev := strings.TrimRight(text[:k], " \t\n")
				afterDot := strings.HasSuffix(prev, ".")
				if r, ok := names[word]; ok && !afterDot {
					out.WriteString(r)
				} else {
					out.WriteString(word)
				}
				k = j
				continue
			}
			out.WriteByte(c)
			k++
		}
		return out.String()
	}
	define := func(id *ast.Ident, rhs ast.Expr) {
		if id == nil || id.Name == "_" {
			return
		}
		if _, known := names[id.Name]; known {
			return
		}
		label := "$local"
		if ce, ok := rhs.(*ast.CallExpr); ok {
			label = "$local<" + render(ce.Fun) + ">"
		}
		names[id.Name] = label
	}
	ast.Inspect(fd.Body, func(m ast.Node) bool {
		switch st := m.(type) {
		case *ast.AssignStmt:
			if st.Tok == token.DEFINE {
				for k, l := range st.Lhs {
					id, _ := l.(*ast.Ident)
					var rhs ast.Expr
					if len(st.Rhs) == 1 {
						rhs = st.Rhs[0]
					} else if k < len(st.Rhs) {
						rhs = st.Rhs[k]
					}
					define(id, rhs)
				}
			}
		case *ast.RangeStmt:
			if st.Tok == token.DEFINE {
				if id, ok := st.Key.(*ast.Ident); ok {
					define(id, nil)
				}
				if id, ok := st.Value.(*ast.Ident); ok {
					define(id, nil)
				}
			}
		case *ast.DeclStmt:
			if gd, ok := st.Decl.(*ast.GenDecl); ok {
				for _, sp := range gd.Specs {
					if vs, ok := sp.(*ast.ValueSpec); ok {
						for k, id := range vs.Names {
							var rhs ast.Expr
							if k < len(vs.Values) {
								rhs = vs.Values[k]
							}
							define(id, rhs)
						}
					}
				}
			}
		}
		return true
	})
	return render(n)
}

// matchRole: does text (rendered by canon) contain pattern, where every § in the pattern stands for any role placeholder
// ($recv, $param<i>, $result, $local, $local<callee>)?
func matchRole(text, pattern string) bool {
	parts := strings.Split(pattern, "§")
	for k := range parts {
		parts[k] = regexp.QuoteMeta(parts[k])
	}
	re := regexp.MustCompile(strings.Join(parts, `\$[a-z]+[0-9]*(?:<[^<>]*(?:<[^<>]*>)?[^<>]*>)?`))
	return re.MatchString(text)
}

func leanBool(b bool) string {
	if b {
		return "true"
	}
	return "false"
}

func main() {
	root := "/repo"
	if len(os.Args) > 1 {
		root = os.Args[1]
	}
	var b strings.Builder
	p := func(format string, a ...interface{}) { fmt.Fprintf(&b, format, a...) }
	p("/-! Generated by tools/factgen from the dud sources. Do not edit. -/\nnamespace Dud.Facts\n\n")

	cacheGo := parse(root, "src/cache/cache.go")
	commitGo := parse(root, "src/cache/commit.go")
	checkoutGo := parse(root, "src/cache/checkout.go")
	statusGo := parse(root, "src/cache/status.go")
	pushGo := parse(root, "src/cache/push.go")
	rootGo := parse(root, "src/cmd/root.go")
	stageGo := parse(root, "src/stage/stage.go")
	indexGo := parse(root, "src/index/index.go")
	checksumGo := parse(root, "src/checksum/checksum.go")
	sameGo := parse(root, "src/fsutil/same.go")
	initGo := parse(root, "src/cmd/init.go")
	configGo := parse(root, "src/cmd/config.go")

	// --- constants
	num := func(name string, f *ast.File, ident string) {
		if v, ok := intLit(constOrVar(f, ident)); ok {
			p("def %s : Nat := %d\n", name, v)
		} else {
			p("def %s : Nat := 0 -- unknown: %s\n", name, ident)
			p("def %sKnown : Bool := false\n", name)
			return
		}
		p("def %sKnown : Bool := true\n", name)
	}
	num("cacheFilePerms", cacheGo, "cacheFilePerms")
	num("maxSharedWorkers", cacheGo, "maxSharedWorkers")
	num("maxDedicatedWorkers", cacheGo, "maxDedicatedWorkers")
	for _, kv := range [][2]string{{"indexPath", "indexPath"}, {"lockPath", "lockPath"}} {
		if s, ok := strLit(constOrVar(rootGo, kv[1])); ok {
			p("def %s : String := %s\n", kv[0], strconv.Quote(s))
		} else {
			p("def %s : String := \"?unknown\"\n", kv[0])
		}
	}

	// --- PathForChecksum: len(checksum) < N ; checksum[:K], checksum[K:]
	minLen, splitA, splitB := int64(-1), int64(-1), int64(-1)
	if fd := funcDecl(cacheGo, "PathForChecksum"); fd != nil {
		ast.Inspect(fd, func(m ast.Node) bool {
			switch x := m.(type) {
			case *ast.BinaryExpr:
				if x.Op == token.LSS && strings.HasPrefix(src(x.X), "len(") {
					minLen, _ = intLit(x.Y)
				}
			case *ast.SliceExpr:
				if x.Low == nil && x.High != nil {
					splitA, _ = intLit(x.High)
				}
				if x.Low != nil && x.High == nil {
					splitB, _ = intLit(x.Low)
				}
			}
			return true
		})
	}
	p("def minChecksumLen : Int := %d\ndef pathSplitHead : Int := %d\ndef pathSplitTail : Int := %d\n", minLen, splitA, splitB)
	// PathForChecksum looks at every character of the checksum and refuses with InvalidChecksumError inside that loop
	charsChecked := false
	if fd := funcDecl(cacheGo, "PathForChecksum"); fd != nil && len(paramNames(fd)) == 1 {
		ast.Inspect(fd, func(m ast.Node) bool {
			if rs, ok := m.(*ast.RangeStmt); ok && src(rs.X) == paramNames(fd)[0] {
				ast.Inspect(rs.Body, func(k ast.Node) bool {
					if ret, ok := k.(*ast.ReturnStmt); ok && strings.Contains(src(ret), "InvalidChecksumError") {
						charsChecked = true
					}
					return true
				})
			}
			return true
		})
	}
	p("def checksumCharsChecked : Bool := %s\n", leanBool(charsChecked))

	// --- lock: flags of lockProject, unlock shape
	if fd := funcDecl(rootGo, "lockProject"); fd != nil {
		fl, mode, ok := openFileFlags(fd)
		p("def lockFlags : List String := %s\ndef lockMode : Nat := %d\ndef lockFlagsKnown : Bool := %s\n", leanStrList(fl), mode, leanBool(ok))
		// what path is locked
		lockArg := ""
		ast.Inspect(fd, func(m ast.Node) bool {
			if ce, ok := m.(*ast.CallExpr); ok && src(ce.Fun) == "os.OpenFile" {
				lockArg = canon(fd, ce.Args[0])
			}
			return true
		})
		p("def lockPathExpr : String := %s\n", strconv.Quote(lockArg))
	} else {
		p("def lockFlags : List String := []\ndef lockMode : Nat := 0\ndef lockFlagsKnown : Bool := false\ndef lockPathExpr : String := \"?\"\n")
	}
	if fd := funcDecl(rootGo, "unlockProject"); fd != nil {
		rmArg := ""
		guarded := false
		ast.Inspect(fd, func(m ast.Node) bool {
			if is, ok := m.(*ast.IfStmt); ok && src(is.Cond) == "projectLocked" {
				guarded = true
			}
			// the same guard written as an early return: if !projectLocked { return … }
			if is, ok := m.(*ast.IfStmt); ok && src(is.Cond) == "!projectLocked" && is.Else == nil && len(is.Body.List) > 0 {
				if _, isRet := is.Body.List[len(is.Body.List)-1].(*ast.ReturnStmt); isRet {
					guarded = true
				}
			}
			if ce, ok := m.(*ast.CallExpr); ok && src(ce.Fun) == "os.Remove" {
				rmArg = src(ce.Args[0])
			}
			return true
		})
		p("def unlockPathExpr : String := %s\ndef unlockGuarded : Bool := %s\n", strconv.Quote(rmArg), leanBool(guarded))
	} else {
		p("def unlockPathExpr : String := \"?\"\ndef unlockGuarded : Bool := false\n")
	}
	// fatal(): unlocks unless projectLockedError
	if fd := funcDecl(rootGo, "fatal"); fd != nil {
		cs := calls(fd)
		p("def fatalCalls : List String := %s\n", leanStrList(cs))
		p("def fatalSkipsUnlockOnLocked : Bool := %s\n", leanBool(matchRole(canon(fd, fd.Body), "!errors.Is(§, projectLockedError{})")))
	} else {
		p("def fatalCalls : List String := []\ndef fatalSkipsUnlockOnLocked : Bool := false\n")
	}
	if fd := funcDecl(rootGo, "Main"); fd != nil {
		p("def mainCalls : List String := %s\n", leanStrList(calls(fd)))
	}
	if fd := funcDecl(rootGo, "prepare"); fd != nil {
		p("def prepareCalls : List String := %s\n", leanStrList(calls(fd)))
	}
	// config get/set: do they chdir before locking?
	p("def configChdirs : Bool := %s\n", leanBool(strings.Contains(src(configGo), "os.Chdir")))

	// --- checkout copy target flags
	if fd := funcDecl(checkoutGo, "checkoutFile"); fd != nil {
		fl, mode, ok := openFileFlags(fd)
		p("def copyFlags : List String := %s\ndef copyMode : Nat := %d\ndef copyFlagsKnown : Bool := %s\n", leanStrList(fl), mode, leanBool(ok))
		p("def checkoutFileCalls : List String := %s\n", leanStrList(calls(fd)))
		// the checksum comparison guarding success of the copy
		p("def copyVerifies : Bool := %s\n", leanBool(matchRole(canon(fd, fd.Body), "§ != §.Checksum") || matchRole(canon(fd, fd.Body), "§.Checksum != §")))
		// what is compared with the recorded checksum: the hash of the very bytes that go to the workspace file in the same pass
		// (a tee of the source into the destination, or a copy into a writer that feeds both) — by derivation, through helpers
		hashed := []string{}
		otherWriters := 0
		for _, h := range findDeep(pkgFuncs(root, "src/cache"), fd, nil, 3, map[*ast.FuncDecl]bool{}, func(n ast.Node) bool {
			if be, ok := n.(*ast.BinaryExpr); ok && be.Op == token.NEQ {
				return strings.HasSuffix(src(be.X), ".Checksum") || strings.HasSuffix(src(be.Y), ".Checksum")
			}
			if ce, ok := n.(*ast.CallExpr); ok {
				return src(ce.Fun) == "io.Copy" || src(ce.Fun) == "io.CopyBuffer" || src(ce.Fun) == "io.CopyN"
			}
			return false
		}) {
			if be, ok := h.node.(*ast.BinaryExpr); ok {
				side := be.X
				if strings.HasSuffix(src(be.X), ".Checksum") {
					side = be.Y
				}
				hashed = append(hashed, sourcesAmong(h.d, side, []string{"call:checksum.Checksum", "call:io.TeeReader", "call:io.MultiWriter", "call:os.OpenFile", "call:os.Open"}))
			} else if h.call != nil && len(h.call.Args) >= 2 {
				// a separate copy into the destination: fine only if the same writer feeds the hasher (MultiWriter)
				w := sourcesAmong(h.d, h.call.Args[0], []string{"call:io.MultiWriter", "call:os.OpenFile", "call:os.Create"})
				if w != "call:io.MultiWriter,call:os.OpenFile" && w != "" {
					otherWriters++
				}
			}
		}
		hl := make([]string, len(hashed))
		for i, h := range hashed {
			hl[i] = leanStrList(strings.Split(h, ","))
		}
		p("def copyHashedSources : List (List String) := [%s]\ndef copyUnhashedWriters : Nat := %d\n", strings.Join(hl, ", "), otherWriters)
		// Remove only under ContentsMatch
		removeGuarded := false
		ast.Inspect(fd, func(m ast.Node) bool {
			if is, ok := m.(*ast.IfStmt); ok && src(is.Cond) == "status.ContentsMatch" {
				for _, c := range calls(is.Body) {
					if c == "os.Remove" {
						removeGuarded = true
					}
				}
			}
			return true
		})
		nRemove := 0
		for _, c := range calls(fd) {
			if c == "os.Remove" || c == "os.RemoveAll" {
				nRemove++
			}
		}
		p("def copyRemoveGuarded : Bool := %s\ndef checkoutFileRemoves : Nat := %d\n", leanBool(removeGuarded), nRemove)
	}
	if fd := funcDecl(checkoutGo, "checkoutDir"); fd != nil {
		p("def checkoutDirCalls : List String := %s\n", leanStrList(calls(fd)))
	}

	// --- how stage file and index are written
	// "tempRename": the function renames something onto its path parameter and never creates or
	// opens the path parameter itself; "createTrunc": it os.Create()s the path parameter.
	writeKind := func(fd *ast.FuncDecl) string {
		if fd == nil || fd.Type.Params == nil || len(fd.Type.Params.List) == 0 || len(fd.Type.Params.List[0].Names) == 0 {
			return "unknown"
		}
		target := fd.Type.Params.List[0].Names[0].Name
		createsTarget, renamesOnto, createsOther := false, false, false
		ast.Inspect(fd, func(m ast.Node) bool {
			ce, ok := m.(*ast.CallExpr)
			if !ok {
				return true
			}
			switch src(ce.Fun) {
			case "os.Create", "os.OpenFile", "os.WriteFile":
				if len(ce.Args) > 0 && src(ce.Args[0]) == target {
					createsTarget = true
				} else {
					createsOther = true
				}
			case "os.CreateTemp", "ioutil.TempFile":
				createsOther = true
			case "os.Rename":
				if len(ce.Args) == 2 && src(ce.Args[1]) == target {
					renamesOnto = true
				}
			}
			return true
		})
		switch {
		case createsTarget:
			return "createTrunc"
		case renamesOnto && createsOther:
			return "tempRename"
		default:
			return "unknown"
		}
	}
	p("def stageWrite : String := %s\n", strconv.Quote(writeKind(funcDecl(stageGo, "ToFile"))))
	p("def indexWrite : String := %s\n", strconv.Quote(writeKind(funcDecl(indexGo, "ToFile"))))

	// --- commitBytes call order; link branch of commitFileArtifact
	// (looking through same-package helpers: see deep.go)
	cachePkg := pkgFuncs(root, "src/cache")
	if fd := funcDecl(commitGo, "commitBytes"); fd != nil {
		var order []string
		for _, c := range callsDeep(cachePkg, fd, 3, map[*ast.FuncDecl]bool{}) {
			switch c {
			case "os.CreateTemp", "checksum.Checksum", "os.MkdirAll", "os.Rename", "os.Chmod", "os.Remove", "os.WriteFile", "os.Create", "io.Copy":
				order = append(order, c)
			}
		}
		p("def commitBytesOrder : List String := %s\n", leanStrList(order))
		// what the rename moves where, and what is made read-only: by derivation, not by variable names
		interesting := []string{"$param1", "$recv", "call:os.CreateTemp", "call:PathForChecksum", "call:checksum.Checksum"}
		var renames, chmods []string
		tempDir := "?"
		for _, h := range findDeep(cachePkg, fd, nil, 3, map[*ast.FuncDecl]bool{}, func(n ast.Node) bool {
			ce, ok := n.(*ast.CallExpr)
			return ok && (src(ce.Fun) == "os.Rename" || src(ce.Fun) == "os.Chmod" || src(ce.Fun) == "os.CreateTemp")
		}) {
			switch src(h.call.Fun) {
			case "os.Rename":
				renames = append(renames, "src:"+sourcesAmong(h.d, h.call.Args[0], interesting)+";dst:"+sourcesAmong(h.d, h.call.Args[1], interesting))
			case "os.Chmod":
				chmods = append(chmods, sourcesAmong(h.d, h.call.Args[0], interesting)+";"+src(h.call.Args[1]))
			case "os.CreateTemp":
				tempDir = sourcesAmong(h.d, h.call.Args[0], []string{"$recv", "field:dir", "$param0", "$param1"})
			}
		}
		p("def commitTempDir : String := %s\n", strconv.Quote(tempDir))
		p("def commitRenameArgs : String := %s\ndef commitChmodArgs : String := %s\n", strconv.Quote(strings.Join(renames, "|")), strconv.Quote(strings.Join(chmods, "|")))
	}
	if fd := funcDecl(commitGo, "commitFileArtifact"); fd != nil {
		var order []string
		for _, c := range calls(fd) {
			switch c {
			case "os.Remove", "checkoutFile", "checksum.Checksum", "os.Rename", "os.RemoveAll":
				order = append(order, c)
			default:
				if strings.HasSuffix(c, ".commitBytes") {
					order = append(order, "commitBytes")
				}
			}
		}
		p("def commitFileOrder : List String := %s\n", leanStrList(order))
		p("def commitFileSkipBeforeCache : Bool := %s\n", leanBool(strings.Index(src(fd), ".SkipCache") >= 0 && strings.Index(src(fd), ".SkipCache") < strings.Index(src(fd), ".commitBytes(")))
	}
	if fd := funcDecl(commitGo, "commitDirArtifact"); fd != nil {
		p("def commitDirChecksSkip : Bool := %s\n", leanBool(strings.Contains(src(fd), "SkipCache")))
	}
	if fd := funcDecl(commitGo, "commitWorker"); fd != nil {
		s := canon(fd, fd.Body)
		p("def workerReusesOldChild : Bool := %s\n", leanBool(matchRole(s, "§.Contents[§]")))
		p("def workerChecksKind : Bool := %s\n", leanBool(matchRole(s, "§.IsDir() ==") || matchRole(s, "== §.IsDir()") || matchRole(s, "!= §.IsDir()") || matchRole(s, "§.IsDir() !=")))
	}

	// --- ownership walk
	if fd := funcDecl(stageGo, "FindDirArtifactOwnerForPath"); fd != nil {
		acc := "unknown"
		ast.Inspect(fd, func(m ast.Node) bool {
			if rs, ok := m.(*ast.RangeStmt); ok {
				for _, st := range rs.Body.List {
					if as, ok := st.(*ast.AssignStmt); ok && len(as.Lhs) == 1 && src(as.Lhs[0]) == "dir" &&
						strings.HasPrefix(src(as.Rhs[0]), "filepath.Join(dir,") {
						if as.Tok == token.DEFINE {
							acc = "shadow"
						} else if as.Tok == token.ASSIGN {
							acc = "accumulate"
						}
					}
				}
			}
			return true
		})
		p("def ownerWalk : String := %s\n", strconv.Quote(acc))
		p("def ownerWalkAccumulates : Bool := %s\n", leanBool(acc == "accumulate"))
	} else {
		p("def ownerWalk : String := \"unknown\"\ndef ownerWalkAccumulates : Bool := false\n")
	}
	if fd := funcDecl(indexGo, "AddStage"); fd != nil {
		s := src(fd)
		p("def addStageChecksReverse : Bool := %s\n", leanBool(strings.Count(s, "FindDirArtifactOwnerForPath") > 0))
	}

	// --- checksum: Reset precedes CopyBuffer
	if fd := funcDecl(checksumGo, "ChecksumBuffer"); fd != nil {
		cs := calls(fd)
		ri, ci := -1, -1
		for i, c := range cs {
			// whatever the hasher variable is called
			if strings.HasSuffix(c, ".Reset") && !strings.Contains(strings.TrimSuffix(c, ".Reset"), ".") && ri < 0 {
				ri = i
			}
			if c == "io.CopyBuffer" && ci < 0 {
				ci = i
			}
		}
		p("def hasherResetBeforeCopy : Bool := %s\n", leanBool(ri >= 0 && ci >= 0 && ri < ci))
		p("def checksumBufferCalls : List String := %s\n", leanStrList(cs))
	} else {
		p("def hasherResetBeforeCopy : Bool := false\ndef checksumBufferCalls : List String := []\n")
	}
	p("def hasherNew : String := %s\n", strconv.Quote(func() string {
		s := src(checksumGo)
		if strings.Contains(s, "blake3.New()") {
			return "blake3.New"
		}
		return "unknown"
	}()))
	if e := constOrVar(checksumGo, "DefaultBufferSize"); e != nil {
		p("def checksumBufferExpr : String := %s\n", strconv.Quote(src(e)))
	}
	if fd := funcDecl(sameGo, "SameContents"); fd != nil {
		var mk []string
		ast.Inspect(fd, func(m ast.Node) bool {
			if ce, ok := m.(*ast.CallExpr); ok && src(ce.Fun) == "make" && len(ce.Args) == 2 {
				mk = append(mk, src(ce.Args[1]))
			}
			return true
		})
		p("def sameBufferExprs : List String := %s\n", leanStrList(mk))
		// order of the comparisons inside the loop
		var conds []string
		ast.Inspect(fd, func(m ast.Node) bool {
			if is, ok := m.(*ast.IfStmt); ok {
				conds = append(conds, src(is.Cond))
			}
			return true
		})
		p("def sameConds : List String := %s\n", leanStrList(conds))
	}

	// --- worker pools: select case sets and channel capacities
	selCases := func(fd *ast.FuncDecl) []string {
		var out []string
		if fd == nil {
			return []string{"?missing"}
		}
		ast.Inspect(fd, func(m ast.Node) bool {
			if ss, ok := m.(*ast.SelectStmt); ok {
				for _, c := range ss.Body.List {
					cc := c.(*ast.CommClause)
					if cc.Comm == nil {
						out = append(out, "default")
					} else {
						// which parameter it is does not matter here, only that the channel is handed in / made locally
						c := canon(fd, cc.Comm)
						for d := 0; d <= 9; d++ {
							c = strings.ReplaceAll(c, fmt.Sprintf("$param%d", d), "$param")
						}
						for strings.Contains(c, "$param0") || strings.Contains(c, "$param1") {
							c = strings.ReplaceAll(strings.ReplaceAll(c, "$param0", "$param"), "$param1", "$param")
						}
						out = append(out, c)
					}
				}
			}
			return true
		})
		return out
	}
	p("def commitSpawnSelect : List String := %s\n", leanStrList(selCases(funcDecl(commitGo, "startCommitWorkers"))))
	p("def checkoutSpawnSelect : List String := %s\n", leanStrList(selCases(funcDecl(checkoutGo, "startCheckoutWorkers"))))
	p("def statusSpawnSelect : List String := %s\n", leanStrList(selCases(funcDecl(statusGo, "startStatusWorkers"))))
	dedCap := func(fd *ast.FuncDecl) string {
		out := "?"
		if fd == nil {
			return out
		}
		ast.Inspect(fd, func(m ast.Node) bool {
			// the pool made per call (whatever the variable is called): x := make(chan struct{}, CAP)
			if as, ok := m.(*ast.AssignStmt); ok && len(as.Lhs) == 1 && len(as.Rhs) == 1 {
				if ce, ok := as.Rhs[0].(*ast.CallExpr); ok && src(ce.Fun) == "make" && len(ce.Args) == 2 && strings.HasPrefix(src(ce.Args[0]), "chan struct{}") {
					out = src(ce.Args[1])
				}
			}
			return true
		})
		return out
	}
	p("def dedicatedCaps : List String := %s\n", leanStrList([]string{
		dedCap(funcDecl(commitGo, "startCommitWorkers")), dedCap(funcDecl(checkoutGo, "startCheckoutWorkers")), dedCap(funcDecl(statusGo, "startStatusWorkers"))}))

	// --- fetch: the map of the next level's artifacts (values read from a fetched manifest) is keyed by which field
	if fd := funcDecl(parse(root, "src/cache/fetch.go"), "Fetch"); fd != nil {
		key := "?"
		for _, h := range findDeep(cachePkg, fd, nil, 3, map[*ast.FuncDecl]bool{}, func(n ast.Node) bool {
			as, ok := n.(*ast.AssignStmt)
			if !ok || len(as.Lhs) != 1 || len(as.Rhs) != 1 {
				return false
			}
			_, isIdx := as.Lhs[0].(*ast.IndexExpr)
			return isIdx
		}) {
			as := h.node.(*ast.AssignStmt)
			ie := as.Lhs[0].(*ast.IndexExpr)
			if !h.d.exprSources(as.Rhs[0])["call:readDirManifest"] {
				continue
			}
			if se, ok := ie.Index.(*ast.SelectorExpr); ok && h.d.exprSources(se.X)["call:readDirManifest"] {
				key = "manifest-entry." + se.Sel.Name
			} else {
				key = "?" + src(ie.Index)
			}
		}
		p("def fetchChildKey : String := %s\n", strconv.Quote(key))
	}
	p("def pushSetsPerms : Bool := %s\n", leanBool(func() bool {
		// remoteCopy (whatever its variables are called) ends by setting the permissions of what it copied to cacheFilePerms
		for _, name := range []string{"remoteCopy"} {
			if v := funcLitVar(pushGo, name); v != nil {
				found := false
				ast.Inspect(v, func(m ast.Node) bool {
					if ce, ok := m.(*ast.CallExpr); ok && src(ce.Fun) == "setFilePerms" && len(ce.Args) == 3 && src(ce.Args[2]) == "cacheFilePerms" {
						found = true
					}
					return true
				})
				return found
			}
		}
		return strings.Contains(src(pushGo), "setFilePerms(") && strings.Contains(src(pushGo), ", cacheFilePerms)")
	}()))

	// --- init: refuses when already initialised?
	{
		s := src(initGo)
		p("def initGuardsExisting : Bool := %s\n", leanBool(strings.Contains(s, "os.Stat(") || strings.Contains(s, "fsutil.Exists(") || strings.Contains(s, "O_EXCL")))
	}

	// --- Validate: the '..' and absolute-path rejections
	if fd := funcDecl(stageGo, "Validate"); fd != nil {
		s := src(fd)
		p("def validateRejectsDotDot : Bool := %s\n", leanBool(strings.Count(s, `strings.Contains(`) >= 2 && strings.Count(s, `".."`) >= 2))
		p("def validateRejectsAbs : Bool := %s\n", leanBool(strings.Count(s, "filepath.IsAbs(") >= 2))
	}

	p("\nend Dud.Facts\n")
	fmt.Print(b.String())
}
