#!/usr/bin/env python3
"""Enrich seeded/<id>/meta.json with the fields the brief asks for (property, what the change needs to
manifest, what was run) taken from the author's notes, and write seeded/SUMMARY.md.
Usage: tools/seeded_summary.py"""
import json, os, re, sys

VERIF = os.path.dirname(os.path.dirname(os.path.abspath(__file__)))
SEEDED = os.path.join(VERIF, "seeded")

OVERRIDE_STATUS = {
    "C18-9": ("superseded", "neutralised by repo fix fa1612c (commitDirArtifact refuses a link at the path of the directory it is asked to commit): the change made a recommit "
                            "treat a recorded sub-directory that is now a link as a directory and descend into it; the descent now ends at the refusal, and the author's demonstration "
                            "passes with the change on the current tree (checked by hand after the final re-evaluation). Caught with a concrete input before the repair. Kept for the record, not counted."),
    "C18-7": ("superseded", "neutralised by repo fix d539c28 (PathForChecksum accepts letters and digits only): the change deletes the cache object of a mismatching copy, "
                            "which escaped the cache only through a recorded checksum that is a path; with such checksums rejected the author's demonstration passes with and "
                            "without the change. The hostile-checksum stream that exposed the underlying defect of the pinned tree was written because of this change. Kept for the record, not counted."),
    "C04-1": ("superseded", "neutralised by repo fix ee5c958 (a link into the cache is accepted on retry): the author's demonstration "
                            "passes with and without the change on the current tree, i.e. the property holds with the change applied; "
                            "the check rightly stays quiet. Kept for the record, not counted."),
    "C05-1": ("superseded", "neutralised by repo fix 47f50cf: the change relied on the status of an untracked EMPTY directory being ContentsMatch=true to be "
                            "folded into its parent; since the fix an uncommitted directory is never up to date, so the change no longer alters any verdict — "
                            "the demonstration passes with and without it. (It was caught with a concrete input before that fix.) Kept for the record, not counted."),
    "C02-1": ("valid", "ported by hand to the current HEAD (commitBytes gained the temp-file cleanup of fix 2671af9); same dropped flush error."),
    "C03-1": ("valid", "ported by hand to the current HEAD (commitBytes changed by fix 2671af9); same flush after the rename."),
    "C03-2": ("valid", "ported by hand to the current HEAD (commitBytes changed by fix 2671af9); same early removal of the workspace file."),
    "C03-3": ("valid", "ported by hand to the current HEAD (Stage.ToFile amended by a7bf7f5, which is the correct version of the same idea); same in-place write through the link."),
    "C04-2": ("valid", "ported by hand to the current HEAD (fix 2671af9 is the correct version of the same idea: it removes only the temp file). Scenario A of the demonstration is deterministic; its scenario B injects a fault at 'the 2nd rename' per thread under "
                       "strace -f and therefore depends on which OS thread issues the renames (on the unchanged tree it can hit a manifest "
                       "rename instead; before fix 2671af9 that left a stray temp file which the demonstration counted)."),
    "C08-1": ("valid", "ported by hand to the current HEAD (run.go was changed by fix 042d085); same memo, same slip."),
    "C20-1": ("valid", "ported by hand to the current HEAD (UnmarshalJSON was rewritten by fix 889d5f2); same sticky legacy fast path."),
    "C20-2": ("valid", "ported by hand to the current HEAD (UnmarshalJSON was rewritten by fix 889d5f2); same single-pass decoder with the field mix-up."),
}


def section(text, names):
    """text of the first section / bold paragraph whose heading contains one of `names`"""
    lines = text.splitlines()
    for i, l in enumerate(lines):
        low = l.lower()
        if (l.startswith("#") or l.startswith("**")) and any(n in low for n in names):
            out = []
            if l.startswith("**"):
                out.append(re.sub(r"^\*\*[^*]*\*\*:?\s*", "", l))
            for m in lines[i + 1:]:
                if m.startswith("#") or (m.startswith("**") and m.rstrip().endswith("**") is False and re.match(r"^\*\*[A-Z]", m)):
                    break
                out.append(m)
            return " ".join(x.strip() for x in out if x.strip())
    return ""


def main():
    rows = []
    for d in sorted(os.listdir(SEEDED)):
        mp = os.path.join(SEEDED, d, "meta.json")
        if not os.path.exists(mp):
            continue
        m = json.load(open(mp))
        notes = open(os.path.join(SEEDED, d, "notes.md"), errors="replace").read() if os.path.exists(os.path.join(SEEDED, d, "notes.md")) else ""
        title = notes.splitlines()[0].lstrip("# ").strip() if notes else d
        needs = section(notes, ["trigger", "what is needed", "needed to trigger"]) or section(notes, ["which clause", "clause"])
        m["title"] = title
        m["needs_to_manifest"] = needs[:1200]
        m["clause_broken"] = (section(notes, ["clause"]) or "")[:800]
        m["what_was_run"] = ("in a scratch worktree of /repo at %s with the change applied: `go build ./... && go build -tags verif ./...`; the pinned suite "
                             "`go test -vet=off -count=1 ./...` (must pass); the author's demo.sh against the changed tree (must exit non-zero) and against the "
                             "unchanged /repo (must exit 0); then `VERIF_REPO=<worktree> ./check %s` (quick tier, seed 1) from a private copy of /verif"
                             % (m.get("repo_head", "?"), m.get("property", d[:3])))
        st, remark = OVERRIDE_STATUS.get(d, (None, ""))
        if st is None:
            ok = m.get("applies") and m.get("builds", True) and m.get("suite_passes") and m.get("demo_with_change") not in (0, None) and m.get("demo_without_change") == 0
            st = "valid" if ok else "invalid"
        m["status"] = st
        if remark:
            m["remark"] = remark
        json.dump(m, open(mp, "w"), indent=1)
        how = "—"
        if st == "valid":
            if m.get("caught_quick"):
                how = "caught, concrete failing input" if m.get("caught_with_concrete_input") else "caught, no-failing-input-found"
            else:
                how = "MISSED"
        lines = [l for l in (m.get("check_quick_lines") or []) if l.startswith("VIOLATION")]
        rows.append((d, st, title, how, (lines[0] if lines else "")))
    with open(os.path.join(SEEDED, "SUMMARY.md"), "w") as f:
        f.write("# Seeded changes\n\n"
                "Each directory holds a change written by a fresh sub-agent that saw only the text of one property and a scratch worktree of\n"
                "/repo (nothing from /verif): `patch.diff`, the author's `demo.sh` and `notes.md`, and `meta.json` (property, what the change needs\n"
                "to manifest, what was run, and how the quick check reacted). Every change compiles, passes the pinned 256-test suite, and makes its\n"
                "demonstration fail while the unchanged tree passes it — confirmed by `tools/mutant_eval.py` in a scratch worktree, never in /repo.\n"
                "Ids <Cxx>-1, -2: first round of seeding (written against the tree before the repairs; where a repair touched the same lines the change was\n"
                "ported by hand, see the remarks below); <Cxx>-3, -4: second round, written against HEAD 1083010 by authors who were given the titles of\n"
                "round 1 to do something different; <Cxx>-5, -6: third round (against a7bf7f5, titles of rounds 1-2 given); <Cxx>-7, -8: fourth round (against\n"
                "a7bf7f5, titles of rounds 1-3 given, asked for other commands, option / configuration / path handling and interactions between commands);\n"
                "<Cxx>-9, -10: fifth round (against d539c28, titles of rounds 1-4 given, asked for mechanisms none of them used; no new flags or configuration fields);\n"
                "<Cxx>-11, -12: sixth round (against fa1612c, titles of rounds 1-5 given, pointed at the process environment, leftovers of other programs, counts and unusual command order).\n"
                "Regenerate this file with `tools/seeded_summary.py` after `tools/mutant_eval.py <dir with the agents' output>` (`MUT_OFFSET=2|4|6|8|10` for rounds 2|3|4|5|6;\n"
                "`MUT_CHECK_ONLY=1` re-runs only the check for changes validated before). A MISSED entry is a change the quick tier does not detect: C15-7 adds a new\n"
                "configuration field (`copy: true`) whose effect exists only when that field is set — a check cannot know options that do not exist in the tree it\n"
                "was written for (boolean FLAGS are discovered from the help texts, configuration fields are not); C01-12 needs two tracked files that are hard links\n"
                "of one another (the model has no inode identity, the generators create no hard links).\n\n"
                "| id | status | change | quick check (seed 1) |\n|---|---|---|---|\n")
        for d, st, title, how, line in rows:
            f.write("| %s | %s | %s | %s |\n" % (d, st, title.replace("|", "/"), how))
        n_valid = sum(1 for r in rows if r[1] == "valid")
        n_caught = sum(1 for r in rows if r[1] == "valid" and r[3].startswith("caught"))
        n_conc = sum(1 for r in rows if r[3].startswith("caught, concrete"))
        f.write("\n%d changes, %d valid on the current tree, %d of those caught by the quick tier of the property's check (%d with a concrete failing input, "
                "%d through a broken proof obligation / correspondence only).\n" % (len(rows), n_valid, n_caught, n_conc, n_caught - n_conc))
        for d, (st, remark) in sorted(OVERRIDE_STATUS.items()):
            f.write("\n* **%s** (%s): %s\n" % (d, st, remark))
    print("wrote", os.path.join(SEEDED, "SUMMARY.md"), len(rows), "rows")


if __name__ == "__main__":
    main()
