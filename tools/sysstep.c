// sysstep: run a command under ptrace, number the filesystem-mutating syscalls of the
// main process (all its threads) globally, log them, and optionally SIGKILL the process at the
// entry of the K-th one (-k K; -s SIG: send SIG, e.g. 15 or 2, instead of SIGKILL) or make the K-th one fail with errno E (-f K:E).
#define _GNU_SOURCE
#include <sys/ptrace.h>
#include <sys/wait.h>
#include <sys/user.h>
#include <sys/syscall.h>
#include <sys/uio.h>
#include <fcntl.h>
#include <signal.h>
#include <stdio.h>
#include <stdlib.h>
#include <string.h>
#include <unistd.h>
#include <errno.h>

#define MAXT 4096
static struct { pid_t tid; int insys; int tgid; long inject; } T[MAXT]; static int nT;
static int slot(pid_t tid){ for(int i=0;i<nT;i++) if(T[i].tid==tid) return i; T[nT].tid=tid; T[nT].insys=0; T[nT].inject=0;
  char p[64],l[256]; snprintf(p,sizeof p,"/proc/%d/status",tid); FILE*f=fopen(p,"r"); T[nT].tgid=tid;
  if(f){ while(fgets(l,sizeof l,f)) if(!strncmp(l,"Tgid:",5)) T[nT].tgid=atoi(l+5); fclose(f);} return nT++; }
static void rdstr(pid_t pid, unsigned long addr, char*buf, size_t n){ buf[0]=0; if(!addr) return;
  struct iovec lo={buf,n-1}, re={(void*)addr,n-1}; ssize_t r=process_vm_readv(pid,&lo,1,&re,1,0);
  if(r<0){ // page boundary: read bytewise
    size_t i=0; for(;i<n-1;i++){ struct iovec l1={buf+i,1}, r1={(void*)(addr+i),1}; if(process_vm_readv(pid,&l1,1,&r1,1,0)!=1) break; if(!buf[i]) break;} buf[i]=0; return; }
  buf[r]=0; }
static void fdpath(pid_t pid,int fd,char*buf,size_t n){ char p[64]; snprintf(p,sizeof p,"/proc/%d/fd/%d",pid,fd); ssize_t r=readlink(p,buf,n-1); buf[r<0?0:r]=0; }
int main(int argc,char**argv){
  long K=-1, FK=-1; int FE=EIO; int KSIG=SIGKILL; const char*logp=NULL; int a=1;
  for(;a<argc && argv[a][0]=='-';a++){ if(!strcmp(argv[a],"-k")) K=atol(argv[++a]); else if(!strcmp(argv[a],"-s")) KSIG=atoi(argv[++a]); else if(!strcmp(argv[a],"-f")){ sscanf(argv[++a],"%ld:%d",&FK,&FE);} else if(!strcmp(argv[a],"-o")) logp=argv[++a]; else if(!strcmp(argv[a],"--")){a++;break;} }
  FILE*lg = logp?fopen(logp,"w"):stderr;
  pid_t child=fork();
  if(child==0){ ptrace(PTRACE_TRACEME,0,0,0); raise(SIGSTOP); execvp(argv[a],argv+a); perror("exec"); _exit(127);}
  int st; waitpid(child,&st,0);
  ptrace(PTRACE_SETOPTIONS,child,0,PTRACE_O_TRACESYSGOOD|PTRACE_O_TRACECLONE|PTRACE_O_TRACEFORK|PTRACE_O_TRACEVFORK|PTRACE_O_TRACEEXEC|PTRACE_O_EXITKILL);
  ptrace(PTRACE_SYSCALL,child,0,0);
  long count=0; int exitcode=-1; int maintg=child;
  for(;;){ pid_t tid=waitpid(-1,&st,__WALL); if(tid<0) break;
    if(WIFEXITED(st)||WIFSIGNALED(st)){ if(tid==child) exitcode = WIFEXITED(st)?WEXITSTATUS(st):128+WTERMSIG(st); continue; }
    int sig=WSTOPSIG(st); int i=slot(tid);
    if(sig==(SIGTRAP|0x80)){ struct user_regs_struct r; ptrace(PTRACE_GETREGS,tid,0,&r);
      if(!T[i].insys){ T[i].insys=1;
        if(T[i].tgid==maintg){ long nr=r.orig_rax; char p1[4096]="",p2[4096]=""; const char*nm=NULL; int mut=0;
          switch(nr){
            case SYS_openat: { int fl=r.rdx; rdstr(tid,r.rsi,p1,sizeof p1); if((fl&(O_CREAT|O_TRUNC)) || ((fl&O_ACCMODE)!=O_RDONLY)){ if((strncmp(p1,"/dev/",5)||!strncmp(p1,"/dev/shm/",9))&&strncmp(p1,"/proc/",6)&&strncmp(p1,"/sys/",5)){mut=1; nm=(fl&O_EXCL)?"create_excl":(fl&O_TRUNC)?"create_trunc":"open_w";} } break; }
            case SYS_renameat: case SYS_renameat2: rdstr(tid,r.rsi,p1,sizeof p1); rdstr(tid,r.r10,p2,sizeof p2); mut=1; nm="rename"; break;
            case SYS_unlinkat: rdstr(tid,r.rsi,p1,sizeof p1); mut=1; nm=(r.rdx&AT_REMOVEDIR)?"rmdir":"unlink"; break;
            case SYS_mkdirat: rdstr(tid,r.rsi,p1,sizeof p1); mut=1; nm="mkdir"; break;
            case SYS_symlinkat: rdstr(tid,r.rdi,p1,sizeof p1); rdstr(tid,r.rdx,p2,sizeof p2); mut=1; nm="symlink"; break;
            case SYS_linkat: rdstr(tid,r.rsi,p1,sizeof p1); rdstr(tid,r.r10,p2,sizeof p2); mut=1; nm="link"; break;
            case SYS_fchmodat: rdstr(tid,r.rsi,p1,sizeof p1); snprintf(p2,sizeof p2,"%lo",(unsigned long)r.rdx); mut=1; nm="chmod"; break;
            case SYS_fchmod: fdpath(tid,r.rdi,p1,sizeof p1); snprintf(p2,sizeof p2,"%lo",(unsigned long)r.rsi); mut=1; nm="chmod"; break;
            case SYS_ftruncate: fdpath(tid,r.rdi,p1,sizeof p1); mut=1; nm="ftruncate"; break;
            case SYS_write: case SYS_pwrite64: { fdpath(tid,r.rdi,p1,sizeof p1); if(p1[0]=='/' && (strncmp(p1,"/dev/",5)||!strncmp(p1,"/dev/shm/",9)) && strncmp(p1,"/proc/",6)){ snprintf(p2,sizeof p2,"%lu",(unsigned long)r.rdx); mut=1; nm="write"; } break; }
          }
          if(mut){ count++; fprintf(lg,"%ld\t%s\t%s\t%s\n",count,nm,p1,p2); fflush(lg);
            if(count==K){ fprintf(lg,"KILL at %ld\n",count); fflush(lg); kill(child,KSIG); /* whole thread group */ }
            else if(count==FK){ r.orig_rax=-1; ptrace(PTRACE_SETREGS,tid,0,&r); T[i].inject=FE; fprintf(lg,"FAULT at %ld errno %d\n",count,FE); fflush(lg);} }
        }
      } else { T[i].insys=0; if(T[i].inject){ r.rax=-(long)T[i].inject; ptrace(PTRACE_SETREGS,tid,0,&r); T[i].inject=0; } }
      ptrace(PTRACE_SYSCALL,tid,0,0);
    } else if(sig==SIGTRAP && (st>>16)){ ptrace(PTRACE_SYSCALL,tid,0,0); }
    else if(sig==SIGSTOP && !T[i].insys && T[i].tid!=child){ ptrace(PTRACE_SYSCALL,tid,0,0); } // new tracee initial stop
    else { ptrace(PTRACE_SYSCALL,tid,0,sig); }
  }
  fprintf(lg,"EXIT %d total %ld\n",exitcode,count); return exitcode<0?1:exitcode; }
