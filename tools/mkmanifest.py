import json, sys
sys.path.insert(0, '/verif/lib')
checks = []
import importlib.util, os
meta = json.load(open('/verif/checks/meta.json'))
props = [json.loads(l) for l in open('/verif/properties.jsonl')]
na = []
for p in props:
    pid = p['id']
    m = meta.get(pid)
    if not m or not os.path.exists('/verif/checks/%s.py' % pid):
        na.append(dict(property_id=pid, reason=(m or {}).get('na_reason', 'check not built yet (work in progress; see DESIGN.md §5 for the plan)')))
        continue
    checks.append(dict(property_id=pid, quick_cmd="./check %s --tier quick" % pid, thorough_cmd="./check %s --tier thorough" % pid,
                       evidence_file="evidence/%s.json" % pid, replay_cmd_template="./check %s --replay {path}" % pid,
                       engine="lean4-model+correspondence",
                       level_claimed=dict(category="proof", text=m['level'], design_ref=m.get('design_ref', 'DESIGN.md §5 ' + pid)),
                       level_note=m['note'], technique=m['technique']))
man = dict(version=1, setup_cmd="./check --setup",
           hooks=dict(guard="verif", enable="go build -tags verif (src/cache/verif_hooks.go, src/cmd/verif_hooks.go)",
                      baseline_off_cmd="cd /repo && GOFLAGS=-mod=mod go test -vet=off -count=1 ./...",
                      source_commits=["15b8ebb"], add_only=True),
           engines=[dict(name="lean4-model+correspondence", path="lean/ check lib/ checks/ tools/ harness/",
                         serves_properties=[c['property_id'] for c in checks],
                         kind_free_text="Lean 4 theorems about a hand-written executable model of dud; tied to /repo by regenerated facts (tools/factgen) and differential streams against the rebuilt binary")],
           checks=checks, not_applicable=na,
           notes="See DESIGN.md. Every check rebuilds dud from /repo's working tree with -tags verif, regenerates Facts.lean, rebuilds the Lean model and proofs, audits axioms, and runs its correspondence streams.")
json.dump(man, open('/verif/MANIFEST.json', 'w'), indent=1)
print(len(checks), "checks", len(na), "n/a")
