#!/usr/bin/env python3
"""Evaluate seeded changes: confirm each one in a scratch worktree (applies, builds, passes the suite, demo
fails with / passes without), then run the property's check against the changed tree.
  tools/mutant_eval.py <outdir with Cxx/patchK.diff, demoK.sh, notesK.md> [ids…]
Results: /verif/seeded/<Cxx>-<K>/{patch.diff, demo.sh, meta.json}"""
import json, os, shutil, subprocess, sys, time

SRC = sys.argv[1]
ONLY = [a for a in sys.argv[2:] if not a.startswith("--")]
EV = os.environ.get("MUT_EV", "/tmp/mutev")          # scratch: worktree + private copy of /verif
OFFSET = int(os.environ.get("MUT_OFFSET", "0"))      # round 2 of the seeding: changes 1,2 are stored as <id>-3, <id>-4
WT = EV + "/repo"
VCOPY = EV + "/verif"
GOENV = dict(os.environ, GOFLAGS="-mod=mod", GOPROXY="off", GOSUMDB="off", GOTOOLCHAIN="local")


def sh(cmd, cwd=None, env=None, timeout=1800):
    p = subprocess.run(cmd, cwd=cwd, env=env or GOENV, stdout=subprocess.PIPE, stderr=subprocess.STDOUT, timeout=timeout, shell=isinstance(cmd, str))
    return p.returncode, p.stdout.decode(errors="replace")


def main():
    os.makedirs(EV, exist_ok=True)
    if not os.path.exists(WT):
        sh(["git", "-C", "/repo", "worktree", "add", "--detach", WT, "HEAD"])
    sh("git checkout -q --detach $(git -C /repo rev-parse HEAD)", cwd=WT)
    # a private copy of the machinery (own lake build dir, own Facts.lean)
    if os.path.exists(VCOPY):
        shutil.rmtree(VCOPY)
    sh(["cp", "-a", "/verif", VCOPY])
    ids = sorted(d for d in os.listdir(SRC) if d.startswith("C") and os.path.isdir(os.path.join(SRC, d)))
    for pid in ids:
        for k in (1, 2):
            tag = "%s-%d" % (pid, k + OFFSET)
            if ONLY and tag not in ONLY and pid not in ONLY:
                continue
            patch = os.path.join(SRC, pid, "patch%d.diff" % k)
            demo = os.path.join(SRC, pid, "demo%d.sh" % k)
            if not os.path.exists(patch):
                continue
            meta = dict(property=pid, change=k + OFFSET, seeding_round=1 + OFFSET // 2, at=time.strftime("%Y-%m-%dT%H:%M:%SZ", time.gmtime()), repo_head=sh("git -C /repo rev-parse --short HEAD")[1].strip())
            sh("git reset -q --hard && git clean -qfd", cwd=WT)
            rc, out = sh(["git", "apply", patch], cwd=WT)
            if rc != 0:
                sh("git reset -q --hard && git clean -qfd", cwd=WT)
                rc, out = sh(["git", "apply", "--3way", patch], cwd=WT)
            meta["applies"] = rc == 0
            if rc != 0:
                meta["apply_error"] = out[-600:]
                save(tag, patch, demo, meta)
                print(tag, "patch does not apply on the current tree")
                sh("git reset -q --hard && git clean -qfd", cwd=WT)
                continue
            sh("git reset -q", cwd=WT)
            old_meta = os.path.join("/verif/seeded", tag, "meta.json")
            check_only = os.environ.get("MUT_CHECK_ONLY") and os.path.exists(old_meta)
            if check_only:
                # the change was validated before (builds, suite passes, demonstration fails with / passes without): only the
                # property's check is run again against the changed tree
                prev = json.load(open(old_meta))
                for k_ in ("builds", "suite_passes", "demo_with_change", "demo_without_change", "demo_tail", "seeding_round"):
                    if k_ in prev:
                        meta[k_] = prev[k_]
                meta["validated_at"] = prev.get("validated_at", prev.get("at"))
            else:
                rc, out = sh("go build ./... && go build -tags verif ./...", cwd=WT)
                meta["builds"] = rc == 0
                rc, out = sh("go test -vet=off -count=1 ./...", cwd=WT)
                meta["suite_passes"] = rc == 0
                if rc != 0:
                    meta["suite_output"] = out[-800:]
            if os.path.exists(demo) and not check_only:
                rc1, o1 = sh(["bash", demo, WT], timeout=600)
                rc0, o0 = sh(["bash", demo, "/repo"], timeout=600)
                meta["demo_with_change"] = rc1
                meta["demo_without_change"] = rc0
                meta["demo_tail"] = o1[-400:]
            # the property's check, quick tier, against the changed tree
            env = dict(GOENV, VERIF_REPO=WT)
            t0 = time.time()
            rc, out = sh(["./check", pid, "--tier", "quick"], cwd=VCOPY, env=env, timeout=3000)
            meta["check_quick_rc"] = rc
            meta["check_quick_s"] = round(time.time() - t0, 1)
            lines = [l for l in out.splitlines() if l.startswith("VIOLATION") or l.startswith("KNOWN-FINDING") or l.startswith(pid)]
            meta["check_quick_lines"] = [l[:300] for l in lines]
            meta["caught_quick"] = rc == 1 and any(l.startswith("VIOLATION") for l in lines)
            meta["caught_with_concrete_input"] = any(l.startswith("VIOLATION") and "no-failing-input-found" not in l for l in lines)
            rp = os.path.join(VCOPY, "replays", "%s-quick-1.json" % pid)
            if meta["caught_quick"] and os.path.exists(rp):
                try:
                    j = json.load(open(rp))
                    meta["replay_summary"] = dict(violations=[str(v.get("violations", v.get("detail", "")))[:300] for v in j.get("violations", [])[:2]],
                                                  unproved=[str(v.get("detail", v.get("diffs", v.get("diff", ""))))[:300] for v in j.get("unproved", [])[:2]])
                except Exception:
                    pass
            if not meta["caught_quick"] and "--thorough" in sys.argv:
                rc, out = sh(["./check", pid, "--tier", "thorough"], cwd=VCOPY, env=env, timeout=6000)
                meta["caught_thorough"] = rc == 1
            save(tag, patch, demo, meta)
            print(tag, "applies" if meta["applies"] else "", "suite", meta.get("suite_passes"), "demo", meta.get("demo_with_change"), meta.get("demo_without_change"),
                  "CAUGHT" if meta["caught_quick"] else "missed", "(concrete)" if meta.get("caught_with_concrete_input") else "", flush=True)
    sh("git checkout -q -- . && git clean -qfd", cwd=WT)


def save(tag, patch, demo, meta):
    d = os.path.join("/verif/seeded", tag)
    os.makedirs(d, exist_ok=True)
    shutil.copyfile(patch, os.path.join(d, "patch.diff"))
    if os.path.exists(demo):
        shutil.copyfile(demo, os.path.join(d, "demo.sh"))
    notes = patch.replace("patch", "notes").replace(".diff", ".md")
    if os.path.exists(notes):
        shutil.copyfile(notes, os.path.join(d, "notes.md"))
    json.dump(meta, open(os.path.join(d, "meta.json"), "w"), indent=1)


main()
