#!/usr/bin/env python3
"""False-alarm experiment: apply behaviour-preserving refactorings (written by a sub-agent that saw only the repository)
in a scratch worktree and run EVERY quick check against the changed tree. A check that prints VIOLATION here raised an
alarm on code where the property holds.
  tools/refactor_eval.py <outdir with R<k>/patch.diff> [ids…]
Results: /verif/seeded/refactorings/R<k>/{patch.diff, notes.md, meta.json} and seeded/refactorings/SUMMARY.md"""
import json, os, shutil, subprocess, sys, time

SRC = sys.argv[1]
ONLY = sys.argv[2:]
EV = os.environ.get("MUT_EV", "/tmp/refev")
WT = EV + "/repo"
VCOPY = EV + "/verif"
GOENV = dict(os.environ, GOFLAGS="-mod=mod", GOPROXY="off", GOSUMDB="off", GOTOOLCHAIN="local")
CHECKS = ["C%02d" % i for i in range(1, 21)]
OUT = "/verif/seeded/refactorings"


def sh(cmd, cwd=None, env=None, timeout=3000):
    p = subprocess.run(cmd, cwd=cwd, env=env or GOENV, stdout=subprocess.PIPE, stderr=subprocess.STDOUT, timeout=timeout, shell=isinstance(cmd, str))
    return p.returncode, p.stdout.decode(errors="replace")


def main():
    os.makedirs(EV, exist_ok=True)
    if not os.path.exists(WT):
        sh(["git", "-C", "/repo", "worktree", "add", "--detach", WT, "HEAD"])
    sh("git checkout -q --detach $(git -C /repo rev-parse HEAD)", cwd=WT)
    if os.path.exists(VCOPY):
        shutil.rmtree(VCOPY)
    sh(["cp", "-a", "/verif", VCOPY])
    rows = []
    for rid in sorted(d for d in os.listdir(SRC) if d.startswith("R") and os.path.isdir(os.path.join(SRC, d))):
        if ONLY and rid not in ONLY:
            continue
        patch = os.path.join(SRC, rid, "patch.diff")
        if not os.path.exists(patch):
            continue
        meta = dict(id=rid, at=time.strftime("%Y-%m-%dT%H:%M:%SZ", time.gmtime()), repo_head=sh("git -C /repo rev-parse --short HEAD")[1].strip())
        sh("git reset -q --hard && git clean -qfd", cwd=WT)
        rc, out = sh(["git", "apply", patch], cwd=WT)
        meta["applies"] = rc == 0
        if rc == 0:
            rc, out = sh("go build ./... && go build -tags verif ./... && go test -vet=off -count=1 ./...", cwd=WT)
            meta["builds_and_suite_passes"] = rc == 0
        alarms = {}
        if meta.get("builds_and_suite_passes"):
            env = dict(GOENV, VERIF_REPO=WT)
            for c in CHECKS:
                rc, out = sh(["./check", c, "--tier", "quick"], cwd=VCOPY, env=env)
                lines = [l[:300] for l in out.splitlines() if l.startswith("VIOLATION")]
                if rc != 0 or lines:
                    detail = ""
                    rp = os.path.join(VCOPY, "replays", "%s-quick-1.json" % c)
                    if os.path.exists(rp):
                        try:
                            j = json.load(open(rp))
                            detail = json.dumps([str(v.get("detail", v.get("violations", v.get("diffs", v.get("diff", "")))))[:400] for v in (j.get("violations", []) + j.get("unproved", []))[:2]])
                        except Exception:
                            pass
                    alarms[c] = dict(lines=lines, detail=detail)
                print(rid, c, "ALARM" if c in alarms else "quiet", flush=True)
        meta["alarms"] = alarms
        d = os.path.join(OUT, rid)
        os.makedirs(d, exist_ok=True)
        shutil.copyfile(patch, os.path.join(d, "patch.diff"))
        n = os.path.join(SRC, rid, "notes.md")
        if os.path.exists(n):
            shutil.copyfile(n, os.path.join(d, "notes.md"))
        json.dump(meta, open(os.path.join(d, "meta.json"), "w"), indent=1)
        rows.append(meta)
    sh("git reset -q --hard && git clean -qfd", cwd=WT)
    # the summary lists every refactoring evaluated so far (earlier batches included)
    rows = []
    for rid in sorted(os.listdir(OUT)):
        mp = os.path.join(OUT, rid, "meta.json")
        if os.path.exists(mp):
            rows.append(json.load(open(mp)))
    with open(os.path.join(OUT, "SUMMARY.md"), "w") as f:
        f.write("# Behaviour-preserving refactorings (false-alarm experiment)\n\n"
                "Written by a sub-agent that saw only the repository; each one builds and passes the pinned suite. Every quick check was run against\n"
                "each of them (`tools/refactor_eval.py`). An alarm here is an alarm on code where the property holds.\n\n| id | alarms |\n|---|---|\n")
        for m in rows:
            f.write("| %s | %s |\n" % (m["id"], ", ".join("%s (%s)" % (c, "no-failing-input-found" if any("no-failing-input-found" in l for l in a["lines"]) else "CONCRETE")
                                                           for c, a in sorted(m["alarms"].items())) or "none"))
    print("done")


main()
